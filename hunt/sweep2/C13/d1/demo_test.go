// Place this file in directory path/ of the repository (package path, i.e.
// github.com/theory/sqljson/path) and run:
//
//	go test -vet=off -count=1 -run 'ZZ' ./path/
package path

import (
	"context"
	"encoding/json"
	"strings"
	"testing"
)

// TestZZC13NegativeZeroCommutes demonstrates that x * y and y * x (and x + y
// and y + x) give different results when one operand is the json.Number "-0"
// and the other one is a double: the results differ in the sign of zero,
// which is visible in the marshalled result and, inside the language, through
// .string().
func TestZZC13NegativeZeroCommutes(t *testing.T) {
	ctx := context.Background()

	// An ordinary JSON document, decoded the way the README recommends for
	// exact numbers (UseNumber).
	var doc any
	dec := json.NewDecoder(strings.NewReader(`{"x": 1.5, "z": -0, "nz": -0.0}`))
	dec.UseNumber()
	if err := dec.Decode(&doc); err != nil {
		t.Fatal(err)
	}
	// The same document with the double held as a float64.
	doc2 := map[string]any{"x": 1.5, "z": json.Number("-0"), "nz": -0.0}

	marshal := func(p string, d any) string {
		t.Helper()
		res, err := MustParse(p).Query(ctx, d)
		if err != nil {
			t.Fatalf("%v: unexpected error %v", p, err)
		}
		b, err := json.Marshal(res)
		if err != nil {
			t.Fatal(err)
		}
		return string(b)
	}

	for _, tc := range []struct{ name, xy, yx string }{
		{"mul, documents", `$.x * $.z`, `$.z * $.x`},
		{"mul, literal", `1.5 * $.z`, `$.z * 1.5`},
		{"mul, seen through .string()", `($.x * $.z).string()`, `($.z * $.x).string()`},
		{"add, negative zeros", `$.nz + $.z`, `$.z + $.nz`},
	} {
		for i, d := range []any{doc, doc2} {
			xy, yx := marshal(tc.xy, d), marshal(tc.yx, d)
			if xy != yx {
				t.Errorf(
					"%v (document %d): %v = %v but %v = %v; expected the same result, "+
						"because the property says \"-(-x) = x, x + y = y + x, x * y = y * x hold\" "+
						"for all operand pairs \"in each of the three numeric representations\". "+
						"The float64-left/json.Number-right branch of execMathOp reads the "+
						"json.Number \"-0\" as the double -0, every other branch reads it as the integer 0.",
					tc.name, i, tc.xy, xy, tc.yx, yx,
				)
			}
		}
	}
}
