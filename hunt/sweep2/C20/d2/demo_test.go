// Belongs in directory path/exec (package exec) of theory/sqljson.
// Run with: go test -vet=off -count=1 -run 'ZZ' ./path/exec
//
// Property C20: "If the context is done before or at any point during
// execution, every entry point returns an error wrapping both
// exec.ErrExecution and the context's error, with no items, after a bounded
// number of further evaluation steps. A cancellation is never converted into
// a normal outcome - not an empty or partial result [...]"
//
// Defect: the context is polled only on entry to a path item
// (executeItemOptUnwrapTarget). The loops that hand items on when there is no
// further path item never enter a path item and so never poll:
//
//   - executeAnyItem with node == nil (path/exec/op.go, "case found != nil:
//     found.append(v)") - the whole recursive walk of a final .**, .* or [*];
//   - the unwrap loop of executeItemOptUnwrapResult (path/exec/execution.go,
//     "for _, item := range seq.list") and the loop of execUnaryMathExpr /
//     execArrayIndex that ends in executeNextItem -> found.append.
//
// A path such as `$.**` therefore polls the context exactly twice (for `$`
// and for `.**`), whatever the size of the document, and a deadline that
// passes during the walk is never noticed: the call returns every item and a
// nil error.
package exec

import (
	"context"
	"errors"
	"testing"
	"time"

	"github.com/theory/sqljson/path/parser"
)

type zzPollCountCtx struct {
	context.Context
	polls int
}

func (c *zzPollCountCtx) Done() <-chan struct{} {
	c.polls++
	return c.Context.Done()
}

func zzBuildTree(depth int) any {
	if depth == 0 {
		return int64(1)
	}
	a := make([]any, 10)
	for i := range a {
		if i%2 == 0 {
			a[i] = zzBuildTree(depth - 1)
		} else {
			a[i] = map[string]any{"k": zzBuildTree(depth - 1)}
		}
	}
	return a
}

func TestZZDeadlineDuringTerminalWalk(t *testing.T) {
	tree := zzBuildTree(6) // about 1.7 million nodes
	flat := make([]any, 3_000_000)
	for i := range flat {
		flat[i] = int64(i)
	}

	for _, tc := range []struct {
		path string
		doc  any
	}{
		{`$.**`, tree},              // executeAnyItem, node == nil
		{`strict $.**{last}`, tree}, // same, strict mode
		{`-$`, flat},                // unwrap loop + execUnaryMathExpr loop
		{`$[0 to last]`, flat},      // execArrayIndex loop
	} {
		ast, err := parser.Parse(tc.path)
		if err != nil {
			t.Fatal(err)
		}

		const deadline = 5 * time.Millisecond
		inner, cancel := context.WithTimeout(context.Background(), deadline)
		ctx := &zzPollCountCtx{Context: inner}
		start := time.Now()
		got, err := Query(ctx, ast, tc.doc, WithSilent())
		took := time.Since(start)
		cancel()

		if took < 2*deadline {
			t.Logf("%q finished in %v, too fast to demonstrate anything", tc.path, took)
			continue
		}
		if err == nil || !errors.Is(err, ErrExecution) || !errors.Is(err, context.DeadlineExceeded) || got != nil {
			t.Errorf("Query(%q) ran for %v under a %v deadline (ctx.Err() = %v), polled the context %d times in all, "+
				"and returned %d items with error %v; C20 requires 'an error wrapping both exec.ErrExecution and the "+
				"context's error, with no items, after a bounded number of further evaluation steps' and that a "+
				"cancellation is never converted into 'an empty or partial result'",
				tc.path, took, deadline, inner.Err(), ctx.polls, len(got), err)
		}
	}
}
