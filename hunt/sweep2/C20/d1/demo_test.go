// Belongs in directory path/exec (package exec) of theory/sqljson.
// Run with: go test -vet=off -count=1 -run 'ZZ' ./path/exec
//
// Property C20: "If the context is done before or at any point during
// execution, every entry point returns an error wrapping both
// exec.ErrExecution and the context's error, with no items, after a bounded
// number of further evaluation steps. A cancellation is never converted into
// a normal outcome [...] and WithSilent does not suppress it."
//
// Defect: the pair loop of executePredicate (path/exec/predicate.go, the two
// nested "for _, lVal := range lSeq.list / for _, rVal := range rSeq.list")
// compares every left item with every right item (|L| x |R| callbacks) and
// never polls the context. A cancellation or deadline that arrives while the
// pairs are being compared is ignored for all of the remaining pairs; when the
// predicate is the last thing the path does, the cancellation is then lost
// altogether and the caller gets a normal result with a nil error.
package exec

import (
	"context"
	"errors"
	"reflect"
	"testing"
	"time"

	"github.com/theory/sqljson/path/parser"
	"github.com/theory/sqljson/path/types"
)

// zzSelfCancelCtx becomes done (context.Canceled) at the first time its
// Value method is called. The executor reads the context's time zone (through
// types.TZFromContext -> ctx.Value) only while it compares a date with a
// timestamptz, i.e. inside the pair loop of executePredicate, so the context
// becomes done deterministically "at a point during execution": while the
// first pair is being compared. It then counts what the executor still does.
type zzSelfCancelCtx struct {
	context.Context
	done        chan struct{}
	closed      bool
	valuesAfter int // comparisons' reads of the time zone after cancellation
	pollsAfter  int // polls of Done() after cancellation
}

func newZZSelfCancelCtx() *zzSelfCancelCtx {
	return &zzSelfCancelCtx{Context: context.Background(), done: make(chan struct{})}
}

func (c *zzSelfCancelCtx) Value(key any) any {
	if c.closed {
		c.valuesAfter++
	} else {
		c.closed = true
		close(c.done)
	}
	return c.Context.Value(key)
}

func (c *zzSelfCancelCtx) Done() <-chan struct{} {
	if c.closed {
		c.pollsAfter++
	}
	return c.done
}

func (c *zzSelfCancelCtx) Err() error {
	if c.closed {
		return context.Canceled
	}
	return nil
}

func TestZZCancelDuringPredicatePairLoop(t *testing.T) {
	const n = 60 // 60 x 60 = 3600 pairs
	day := time.Date(2020, 1, 1, 0, 0, 0, 0, time.UTC)
	dates := make([]any, n)
	stamps := make([]any, n)
	for i := range n {
		dates[i] = types.NewDate(day.AddDate(0, 0, i))
		stamps[i] = types.NewTimestampTZ(context.Background(), day.AddDate(1, 0, i))
	}
	doc := map[string]any{"a": dates, "b": stamps}

	for _, tc := range []struct {
		name, path string
	}{
		// strict mode examines every pair even after a match
		{"strict", `strict $.a[*] < $.b[*]`},
		// lax mode examines every pair when none matches
		{"lax", `$.a[*] > $.b[*]`},
	} {
		ast, err := parser.Parse(tc.path)
		if err != nil {
			t.Fatal(err)
		}
		for _, silent := range []bool{false, true} {
			opts := []Option{WithTZ()}
			if silent {
				opts = append(opts, WithSilent())
			}

			check := func(entry string, c *zzSelfCancelCtx, val, zero any, err error) {
				t.Helper()
				if !c.closed {
					t.Fatalf("%s %s: the demo context was never cancelled (test set-up problem)", tc.name, entry)
				}
				if err == nil || !errors.Is(err, ErrExecution) || !errors.Is(err, context.Canceled) || !reflect.DeepEqual(val, zero) {
					t.Errorf("%s silent=%v %s(%q): the context became done while the first of %d pairs was compared; "+
						"C20 requires 'an error wrapping both exec.ErrExecution and the context's error, with no items' and "+
						"'a cancellation is never converted into a normal outcome', but got (%v, %v)",
						tc.name, silent, entry, tc.path, n*n, val, err)
				}
				// Every comparison reads the zone at least once. "A bounded
				// number of further evaluation steps" cannot grow with the
				// document; be generous and allow 32.
				if c.valuesAfter > 32 {
					t.Errorf("%s silent=%v %s(%q): C20 requires the error 'after a bounded number of further evaluation steps', "+
						"but after the context was done the executor still made %d time-zone reads (about %d more comparisons, "+
						"all %d pairs of the document) and polled the context %d more times",
						tc.name, silent, entry, tc.path, c.valuesAfter, c.valuesAfter/2, n*n, c.pollsAfter)
				}
			}

			c := newZZSelfCancelCtx()
			q, err := Query(c, ast, doc, opts...)
			check("Query", c, q, []any(nil), err)

			c = newZZSelfCancelCtx()
			f, err := First(c, ast, doc, opts...)
			check("First", c, f, nil, err)

			c = newZZSelfCancelCtx()
			e, err := Exists(c, ast, doc, opts...)
			check("Exists", c, e, false, err)

			c = newZZSelfCancelCtx()
			m, err := Match(c, ast, doc, opts...)
			check("Match", c, m, false, err)
		}
	}
}

// The same defect with an ordinary context.WithTimeout and plain numbers: the
// deadline passes while 64 million pairs are being compared (several hundred
// milliseconds); the executor never looks at the context again and returns
// [false] with a nil error long after the deadline.
func TestZZDeadlineDuringPredicatePairLoop(t *testing.T) {
	const n = 8000
	a := make([]any, n)
	b := make([]any, n)
	for i := range n {
		a[i] = int64(i)
		b[i] = int64(1_000_000 + i)
	}
	doc := map[string]any{"a": a, "b": b}
	ast, err := parser.Parse(`$.a[*] > $.b[*]`)
	if err != nil {
		t.Fatal(err)
	}

	ctx, cancel := context.WithTimeout(context.Background(), 20*time.Millisecond)
	defer cancel()
	start := time.Now()
	got, err := Query(ctx, ast, doc, WithSilent())
	took := time.Since(start)
	if took < 20*time.Millisecond {
		t.Skipf("the query finished in %v, before the deadline; machine too fast for this demo", took)
	}
	if err == nil || !errors.Is(err, ErrExecution) || !errors.Is(err, context.DeadlineExceeded) || got != nil {
		t.Errorf("Query(%q) ran for %v under a 20ms deadline (ctx.Err() = %v) and returned (%v, %v); "+
			"C20 requires an error wrapping exec.ErrExecution and context.DeadlineExceeded, with no items, "+
			"'after a bounded number of further evaluation steps', and that 'a cancellation is never converted into a normal outcome'",
			`$.a[*] > $.b[*]`, took, ctx.Err(), got, err)
	}
}
