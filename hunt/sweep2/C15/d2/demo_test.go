// Belongs in: path/  (package path, i.e. /tmp/mut/C15/path/zz_demo_d2_test.go)
// Run:        go test -run 'ZZ' ./path/
package path

import (
	"context"
	"testing"

	"github.com/theory/sqljson/path/ast"
)

// Property C15: ".**{a to b} [returns] every node whose depth below the
// current item lies in a..b ... last as upper bound means unbounded, and
// .**{last} selects the scalar leaves below the item".
//
// ast.NewAny(first, last) is the public constructor of the .** node
// (mechanism "unbounded encoded as MaxUint32 @ path/ast/ast.go NewAny"). An
// explicit, finite level >= 4294967295 is folded onto the encoding of "last",
// so a request for the (non-existent) nodes at depth 2^40 turns into
// .**{last} and returns every scalar leaf. The parser was repaired to reject
// such levels, the constructor was not.
func TestZZNewAnyHugeLevelBecomesLast(t *testing.T) {
	ctx := context.Background()
	doc := map[string]any{"a": []any{int64(1), []any{int64(2)}}, "b": "x"}

	for _, lv := range [][2]int{
		{1 << 40, 1 << 40},       // depth exactly 2^40
		{4294967295, 4294967295}, // depth exactly 2^32-1
		{1 << 40, -1},            // depth 2^40 or more
	} {
		root := ast.LinkNodes([]ast.Node{ast.NewConst(ast.ConstRoot), ast.NewAny(lv[0], lv[1])})
		tree, err := ast.New(true, false, root)
		if err != nil {
			t.Fatal(err)
		}
		p := New(tree)
		res, err := p.Query(ctx, doc)
		if err != nil {
			t.Fatal(err)
		}
		if len(res) != 0 {
			t.Errorf("ast.NewAny(%d, %d) prints as %q and returns %v on %v; expected no items: "+
				"\".**{a to b} [returns] every node whose depth below the current item lies in a..b\" "+
				"and the document has no node at depth >= %d; only a negative argument (\"last\") "+
				"may select \"the scalar leaves below the item\"",
				lv[0], lv[1], p.String(), res, doc, lv[0])
		}
	}
}
