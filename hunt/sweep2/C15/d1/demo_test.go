// Belongs in: path/  (package path, i.e. /tmp/mut/C15/path/zz_demo_d1_test.go)
// Run:        go test -run 'ZZ' ./path/
package path

import (
	"context"
	"testing"

	"github.com/theory/sqljson/path/exec"
)

// Property C15: ".**{k} equals k applications of 'any child'" and "In strict
// mode, member accessors following .** skip the nodes they do not apply to
// instead of failing."
//
// .**{0} is zero applications of 'any child', i.e. the item itself, so
// 'strict $.**{0}[E]' must behave like 'strict $[E]'. The relaxation that .**
// grants is for the member accessors that FOLLOW it in its own accessor chain;
// the expression E inside a subscript is a separate path (rooted at $) and has
// to be evaluated by the rules of the path's mode, exactly as the condition of
// a filter below .** is (that sibling case was repaired earlier).
func TestZZSubscriptExpressionBelowAnyIsEvaluatedLeniently(t *testing.T) {
	ctx := context.Background()
	// $[*].k is a structural error in strict mode: the second element has no
	// member "k".
	doc := []any{
		map[string]any{"k": int64(0)},
		map[string]any{"j": int64(1)},
	}

	plain := MustParse(`strict $[$[*].k]`)
	if res, err := plain.Query(ctx, doc); err == nil {
		t.Fatalf("precondition: %v on %v should fail in strict mode, got %v", plain, doc, res)
	}

	for _, text := range []string{
		`strict $.**{0}[$[*].k]`,      // .**{0}: the item itself
		`strict $.**{0}[0 to $[*].k]`, // upper bound of a range
	} {
		p := MustParse(text)
		res, err := p.Query(ctx, doc)
		if err == nil {
			t.Errorf("%v on [{\"k\":0},{\"j\":1}]: got %v and no error; expected the same error as "+
				"%v (JSON object does not contain key \"k\"): C15 says \".**{k} equals k applications "+
				"of 'any child'\" (k=0: the item itself) and only \"member accessors following .**\" "+
				"are relaxed; the subscript expression $[*].k does not follow .**, it is a separate "+
				"strict path", p, res, plain)
		}
		ok, err := p.Exists(ctx, doc, exec.WithSilent())
		if err == nil {
			t.Errorf("%v: silent Exists = %v, nil; expected NULL as for %v", p, ok, plain)
		}
	}

	// Same below a deeper level: .**{1} = one application of 'any child'.
	doc2 := []any{doc}
	p1 := MustParse(`strict $[*][$[0][*].k]`)
	if _, err := p1.Query(ctx, doc2); err == nil {
		t.Fatalf("precondition: %v should fail", p1)
	}
	p2 := MustParse(`strict $.**{1}[$[0][*].k]`)
	if res, err := p2.Query(ctx, doc2); err == nil {
		t.Errorf("%v on [[{\"k\":0},{\"j\":1}]]: got %v and no error; expected the error of %v "+
			"(.**{1} equals one application of 'any child')", p2, res, p1)
	}
}
