// Place this file in path/ (package path) of the sqljson checkout and run
//
//	go test -vet=off -count=1 -run 'ZZ' ./path
//
// Demonstrates: a comparison inside a filter panics (it does not even return
// an error) when the item, or the other operand, is a json.Number whose text
// is not a number, whereas every sibling consumer of json.Number (arithmetic,
// unary minus, .abs(), .double(), .number()) refuses the same value with a
// suppressible error, which a filter turns into "unknown": the item is
// dropped and the query goes on.
package path

import (
	"context"
	"encoding/json"
	"reflect"
	"strings"
	"testing"

	"github.com/theory/sqljson/path/exec"
)

func zzD1Query(p string, doc any, opt ...exec.Option) (res []any, err error, panicked any) {
	defer func() { panicked = recover() }()
	res, err = MustParse(p).Query(context.Background(), doc, opt...)
	return res, err, nil
}

func TestZZD1FilterComparisonPanicsOnInvalidJSONNumber(t *testing.T) {
	// A Go-built document: json.Number is a string type, nothing stops a
	// caller (or a decoder other than encoding/json) from handing one over
	// that is not a JSON number.
	doc := []any{json.Number("abc"), int64(1), json.Number("2")}
	want := []any{int64(1), json.Number("2")}

	// Sibling conditions that read the same item: the refusal of the bad
	// number is a suppressible error, the condition is unknown, the item is
	// dropped and the query goes on. These pass on the unmodified code.
	for _, p := range []string{
		`$[*] ? (@ + 0 > 0)`,
		`$[*] ? (-@ < 0)`,
		`$[*] ? (@.abs() > 0)`,
		`$[*] ? (@.double() > 0)`,
		`$[*] ? (@.number() > 0)`,
	} {
		got, err, pan := zzD1Query(p, doc)
		if pan != nil || err != nil || !reflect.DeepEqual(got, want) {
			t.Errorf("sibling %q: got %v, err %v, panic %v; want %v", p, got, err, pan, want)
		}
	}

	// The plain comparisons over the same document.
	var panics []string
	for _, p := range []string{
		`$[*] ? (@ > 0)`,
		`$[*] ? (0 < @)`,
		`$[*] ? (@ == @)`,
		`strict $[*] ? (@ > 0)`,
		`$[*] ? (@ > 0 || @ == 1)`,
		`$[*] ? ((@ > 0) is unknown)`,
		`$ ? (@[*] > 5)`,
	} {
		for _, silent := range []bool{false, true} {
			var opts []exec.Option
			mode := "verbose"
			if silent {
				opts = append(opts, exec.WithSilent())
				mode = "silent"
			}
			if _, _, pan := zzD1Query(p, doc, opts...); pan != nil {
				panics = append(panics, p+" ["+mode+"]: panic: "+strings.TrimSpace(toString(pan)))
			}
		}
	}

	// The same through a variable: the document itself is impeccable here.
	vars := exec.WithVars(exec.Vars{"min": json.Number("")})
	good := []any{int64(1), int64(5)}
	if got, err, pan := zzD1Query(`$[*] ? (@ > $min + 0)`, good, vars); pan != nil || err != nil || len(got) != 0 {
		t.Errorf("sibling with variable: got %v, err %v, panic %v; want no item and no error", got, err, pan)
	}
	if _, _, pan := zzD1Query(`$[*] ? (@ > $min)`, good, vars, exec.WithSilent()); pan != nil {
		panics = append(panics, `$[*] ? (@ > $min) with $min = json.Number("") [silent]: panic: `+toString(pan))
	}

	if len(panics) > 0 {
		t.Errorf("document %v: %d filter queries PANICKED instead of dropping the item:\n  %s\n"+
			"Property C10: \"items for which C is false or unknown - including unknown caused by a suppressible "+
			"error inside C - are dropped without aborting the query\". A json.Number that is not a number is "+
			"refused with a suppressible error by +, unary -, .abs(), .double() and .number() (the sibling "+
			"conditions above keep %v), so a comparison that meets it should be unknown for that item, the "+
			"item should be dropped and the other items should still be filtered (expected result %v); at the "+
			"very least an error should be returned instead of a panic out of Query.",
			doc, len(panics), strings.Join(panics, "\n  "), want, want)
	}
}

func toString(v any) string {
	switch v := v.(type) {
	case error:
		return v.Error()
	case string:
		return v
	}
	return "non-string panic value"
}
