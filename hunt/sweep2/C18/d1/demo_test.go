// Belongs in directory path/types (package types) of theory/sqljson.
// Run: go test -vet=off -count=1 -run 'ZZ' ./path/types
package types

import (
	"context"
	"encoding/json"
	"regexp"
	"testing"
	"time"
)

// Property C18: "For every Date, Time, TimeTZ, Timestamp and TimestampTZ value
// with a year in 1..9999 and whole-minute zone offset, String() is ISO-8601,
// ParseTime(String(v)) returns an equal value of the same type,
// json.Unmarshal(json.Marshal(v)) returns an equal value".
//
// A TimeTZ or TimestampTZ whose whole-minute offset is 25 hours or more (the
// constructors accept any time.Time and keep its offset) prints an hour field
// above 24, which is not an ISO-8601 offset, and which neither ParseTime nor
// UnmarshalJSON reads back.
func TestZZOffsetBeyondOneDayDoesNotRoundTrip(t *testing.T) {
	ctx := context.Background()
	isoOffset := regexp.MustCompile(`[+-]([01][0-9]|2[0-3]):[0-5][0-9]$`)

	for _, off := range []int{25 * 3600, -25 * 3600, 99*3600 + 59*60, 100 * 3600} {
		src := time.Date(2024, 1, 2, 3, 4, 5, 0, time.FixedZone("", off))
		if _, o := src.Zone(); o%60 != 0 || src.Year() != 2024 {
			t.Fatalf("bad test value")
		}

		// TimeTZ
		tt := NewTimeTZ(src)
		s := tt.String()
		if !isoOffset.MatchString(s) {
			t.Errorf("TimeTZ offset %ds: String() = %q is not ISO-8601 (hour of the offset above 23); "+
				"C18 requires \"String() is ISO-8601\" for every value with a whole-minute zone offset", off, s)
		}
		if got, ok := ParseTime(ctx, s, -1); !ok {
			t.Errorf("TimeTZ offset %ds: ParseTime(%q) failed; C18 requires "+
				"\"ParseTime(String(v)) returns an equal value of the same type\"", off, s)
		} else if g, isTT := got.(*TimeTZ); !isTT || g.Compare(tt.Time) != 0 {
			t.Errorf("TimeTZ offset %ds: ParseTime(%q) = %v (%T), want an equal *TimeTZ", off, s, got, got)
		}
		b, err := json.Marshal(tt)
		if err != nil {
			t.Fatal(err)
		}
		back := new(TimeTZ)
		if err := json.Unmarshal(b, back); err != nil {
			t.Errorf("TimeTZ offset %ds: json.Unmarshal(%s) failed: %v; C18 requires "+
				"\"json.Unmarshal(json.Marshal(v)) returns an equal value\"", off, b, err)
		} else if back.Compare(tt.Time) != 0 {
			t.Errorf("TimeTZ offset %ds: json round trip gave %v, want %v", off, back, tt)
		}

		// TimestampTZ
		ts := NewTimestampTZ(ctx, src)
		s = ts.String()
		if !isoOffset.MatchString(s) {
			t.Errorf("TimestampTZ offset %ds: String() = %q is not ISO-8601; C18 requires \"String() is ISO-8601\"", off, s)
		}
		if got, ok := ParseTime(ctx, s, -1); !ok {
			t.Errorf("TimestampTZ offset %ds: ParseTime(%q) failed; C18 requires "+
				"\"ParseTime(String(v)) returns an equal value of the same type\"", off, s)
		} else if g, isTS := got.(*TimestampTZ); !isTS || g.Compare(ts.Time) != 0 || g.String() != s {
			t.Errorf("TimestampTZ offset %ds: ParseTime(%q) = %v (%T), want an equal *TimestampTZ", off, s, got, got)
		}
		b, err = json.Marshal(ts)
		if err != nil {
			t.Fatal(err)
		}
		back2 := new(TimestampTZ)
		if err := json.Unmarshal(b, back2); err != nil {
			t.Errorf("TimestampTZ offset %ds: json.Unmarshal(%s) failed: %v; C18 requires "+
				"\"json.Unmarshal(json.Marshal(v)) returns an equal value\"", off, b, err)
		} else if back2.Compare(ts.Time) != 0 {
			t.Errorf("TimestampTZ offset %ds: json round trip gave %v, want %v", off, back2, ts)
		}
	}

	// Control: the largest offsets that do survive (hour field 24).
	for _, off := range []int{24*3600 + 59*60, -(24*3600 + 59*60)} {
		src := time.Date(2024, 1, 2, 3, 4, 5, 0, time.FixedZone("", off))
		tt := NewTimeTZ(src)
		if got, ok := ParseTime(ctx, tt.String(), -1); !ok || got.String() != tt.String() {
			t.Errorf("control offset %ds: %q did not round-trip", off, tt)
		}
	}
}
