// Place in directory path/ of the sqljson module (package path), e.g. as
// path/zz_arithorder_demo_test.go, and run:
//
//	go test -vet=off -count=1 -run 'ZZArithOperandOrder' ./path/
package path

import (
	"context"
	"errors"
	"testing"

	"github.com/theory/sqljson/path/exec"
)

// TestZZArithOperandOrder shows that a binary arithmetic operator does not
// evaluate its right operand when the left operand is not a singleton, so
// that an error of the right operand that cannot be suppressed (an undefined
// variable, .datetime(template), an invalid .decimal() precision) is replaced
// by the suppressible "left operand ... is not a single numeric value", and
// vanishes altogether with WithSilent or inside a filter.
func TestZZArithOperandOrder(t *testing.T) {
	ctx := context.Background()
	doc := []any{float64(1), float64(2)}

	class := func(err error) string {
		switch {
		case err == nil:
			return "no error"
		case errors.Is(err, exec.ErrVerbose):
			return "suppressible (ErrVerbose)"
		case errors.Is(err, exec.ErrExecution):
			return "not suppressible (ErrExecution)"
		default:
			return "other: " + err.Error()
		}
	}

	const clause = "C01: Query returns \"the error class that the documented SQL/JSON path evaluation rules prescribe\": " +
		"both operands of an arithmetic operator are evaluated before the operator is applied, and an undefined variable " +
		"(invalid .decimal() precision, .datetime(template)) is an error that WithSilent does not suppress"

	for _, tc := range []struct {
		name, swapped, path string
		opts                []exec.Option
	}{
		{"undefined variable", `$x + $[*]`, `$[*] + $x`, nil},
		{"undefined variable, silent", `$x + $[*]`, `$[*] + $x`, []exec.Option{exec.WithSilent()}},
		{"undefined variable, in filter", `strict $ ? ($x * @[*] > 0)`, `strict $ ? (@[*] * $x > 0)`, nil},
		{"invalid decimal precision, silent", `$[0].decimal(0) - $[*]`, `$[*] - $[0].decimal(0)`, []exec.Option{exec.WithSilent()}},
		{"datetime template, silent", `"12".datetime("HH24") + $[*]`, `$[*] + "12".datetime("HH24")`, []exec.Option{exec.WithSilent()}},
	} {
		// The mirrored expression reports the hard error, as does every
		// other place the offending operand can be written in.
		_, err := MustParse(tc.swapped).Query(ctx, doc, tc.opts...)
		if class(err) != "not suppressible (ErrExecution)" {
			t.Fatalf("%s: control %s: %s (%v)", tc.name, tc.swapped, class(err), err)
		}

		got, err := MustParse(tc.path).Query(ctx, doc, tc.opts...)
		if class(err) != "not suppressible (ErrExecution)" {
			t.Errorf("%s: Query(%s, [1,2]) = %v, %s (%v); want the error that is not suppressible which %s reports.\n%s",
				tc.name, tc.path, got, class(err), err, tc.swapped, clause)
		}
	}
}
