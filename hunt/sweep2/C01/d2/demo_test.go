// Place in directory path/ of the sqljson module (package path), e.g. as
// path/zz_numstring_demo_test.go, and run:
//
//	go test -vet=off -count=1 -run 'ZZNumberString' ./path/
package path

import (
	"context"
	"encoding/json"
	"strings"
	"testing"
)

// TestZZNumberString shows that .string() of a number depends on how the
// document was decoded: a float64 is written in plain decimal notation, a
// json.Number is copied verbatim from the JSON source, exponent and all.
func TestZZNumberString(t *testing.T) {
	ctx := context.Background()
	dec := func(src string, useNumber bool) any {
		d := json.NewDecoder(strings.NewReader(src))
		if useNumber {
			d.UseNumber()
		}
		var v any
		if err := d.Decode(&v); err != nil {
			t.Fatal(err)
		}
		return v
	}

	for _, tc := range []struct{ path, doc, want string }{
		{`$.string()`, `1e5`, `["100000"]`},
		{`$.string()`, `1E5`, `["100000"]`},
		{`$.string()`, `1e-2`, `["0.01"]`},
		{`$.string()`, `12e+2`, `["1200"]`},
		{`$.string()`, `1e21`, `["1000000000000000000000"]`},
		// The same number spelled in two ways is one item or two.
		{`$[*] ? (@.string() == "100")`, `[100, 1e2, 10e1]`, `[100,100,100]`},
		{`$[*].string() ? (@ like_regex "^[0-9]+$")`, `[100, 1e2]`, `["100","100"]`},
	} {
		p := MustParse(tc.path)
		var answers []string
		for _, useNumber := range []bool{false, true} {
			got, err := p.Query(ctx, dec(tc.doc, useNumber))
			// Compare numbers by value, not by spelling.
			js, _ := json.Marshal(got)
			var norm any
			_ = json.Unmarshal(js, &norm)
			js, _ = json.Marshal(norm)
			answers = append(answers, string(js))
			if err != nil || string(js) != tc.want {
				t.Errorf("Query(%s, %s) with UseNumber=%v = %s, err %v; want %s.\n"+
					"C01: \"Query returns exactly the item sequence (values ...) that the documented SQL/JSON path "+
					"evaluation rules prescribe ... each ... item method contributes the items the rules give it\", "+
					"quantified over \"all JSON documents decoded either to float64 or to json.Number\": the string of "+
					"the number 100000 is one string, not \"100000\" for one decoding and \"1e5\" for the other.",
					tc.path, tc.doc, useNumber, js, err, tc.want)
			}
		}
		if answers[0] != answers[1] {
			t.Errorf("Query(%s, %s): float64 decoding answers %s, json.Number decoding answers %s",
				tc.path, tc.doc, answers[0], answers[1])
		}
	}
}
