// Place in directory path/ of the sqljson module (package path), e.g. as
// path/zz_negzero_demo_test.go, and run:
//
//	go test -vet=off -count=1 -run 'ZZNegativeZero' ./path/
package path

import (
	"context"
	"encoding/json"
	"strings"
	"testing"
)

// TestZZNegativeZero shows that a zero computed in floating point keeps a
// minus sign, which .string() then turns into the item "-0". JSON and SQL/JSON
// numbers have no signed zero, and the same document decoded with UseNumber
// yields "0".
func TestZZNegativeZero(t *testing.T) {
	ctx := context.Background()
	dec := func(src string, useNumber bool) any {
		d := json.NewDecoder(strings.NewReader(src))
		if useNumber {
			d.UseNumber()
		}
		var v any
		if err := d.Decode(&v); err != nil {
			t.Fatal(err)
		}
		return v
	}

	for _, tc := range []struct{ path, doc, want string }{
		{`(-$).string()`, `0`, `["0"]`},
		{`($ * -1).string()`, `0`, `["0"]`},
		{`($ % 1).string()`, `-3.0`, `["0"]`},
		{`$.double().string()`, `"-0"`, `["0"]`},
		{`$.number().string()`, `"-0"`, `["0"]`},
		{`(-0.0).string()`, `null`, `["0"]`},
		// What the sign does to a query: the element 0 is its own negation.
		{`$[*] ? ((-@).string() == @.string())`, `[0, 1]`, `[0]`},
		{`(-$).string().boolean()`, `0`, `[false]`},
	} {
		p := MustParse(tc.path)
		for _, useNumber := range []bool{false, true} {
			got, err := p.Query(ctx, dec(tc.doc, useNumber))
			js, _ := json.Marshal(got)
			if err != nil || string(js) != tc.want {
				t.Errorf("Query(%s, %s) with UseNumber=%v = %s, err %v; want %s.\n"+
					"C01: \"Query returns exactly the item sequence (values and order ...) that the documented "+
					"SQL/JSON path evaluation rules prescribe\", for \"all JSON documents decoded either to float64 "+
					"or to json.Number\": a JSON number has no negative zero, - 0 is 0 and its string is \"0\" "+
					"(which is what the json.Number decoding of the same document answers).",
					tc.path, tc.doc, useNumber, js, err, tc.want)
			}
		}
	}
}
