// Place in directory path/ of the sqljson module (package path), e.g. as
// path/zz_timeprecision_demo_test.go, and run:
//
//	go test -vet=off -count=1 -run 'ZZTimePrecision' ./path/
package path

import (
	"context"
	"encoding/json"
	"testing"
)

// TestZZTimePrecision shows that the datetime methods carry nine fractional
// digits when no precision is given, but only six when a precision of 7, 8 or
// 9 is asked for: asking for more digits yields fewer, and the value no longer
// equals itself.
func TestZZTimePrecision(t *testing.T) {
	ctx := context.Background()
	show := func(path string, doc any) string {
		got, err := MustParse(path).Query(ctx, doc)
		if err != nil {
			return "error: " + err.Error()
		}
		js, _ := json.Marshal(got)
		return string(js)
	}

	const clause = "C01: \"each ... item method contributes the items the rules give it\"; the documented rule " +
		"for .time(precision) etc. is \"fractional seconds adjusted to the given precision\" (path/README.md)"

	for _, tc := range []struct{ plain, withPrecision, doc string }{
		{`$.time()`, `$.time(9)`, "12:34:56.123456789"},
		{`$.time()`, `$.time(7)`, "12:34:56.1234567"},
		{`$.time_tz()`, `$.time_tz(8)`, "12:34:56.12345678+01"},
		{`$.timestamp()`, `$.timestamp(9)`, "2023-08-15T12:34:56.123456789"},
		{`$.timestamp_tz()`, `$.timestamp_tz(7)`, "2023-08-15T12:34:56.1234567Z"},
	} {
		plain, prec := show(tc.plain, tc.doc), show(tc.withPrecision, tc.doc)
		if plain != prec {
			t.Errorf("%s of %q = %s but %s = %s; the value has no more fractional digits than the precision asked for, "+
				"so adjusting it to that precision must leave it as it is.\n%s",
				tc.plain, tc.doc, plain, tc.withPrecision, prec, clause)
		}
	}

	// The consequence inside a query: a value is not equal to itself.
	for _, path := range []string{
		`$.time() == $.time(9)`,
		`$ ? (@.timestamp() == @.timestamp(9))`,
	} {
		doc := "12:34:56.123456789"
		want := `[true]`
		if path[0:3] == "$ ?" {
			doc = "2023-08-15T12:34:56.123456789"
			want = `["2023-08-15T12:34:56.123456789"]`
		}
		if got := show(path, doc); got != want {
			t.Errorf("Query(%s, %q) = %s, want %s.\n%s", path, doc, got, want, clause)
		}
	}
}
