// Place in: path/exec (package exec). Run: go test -vet=off -count=1 -run 'ZZ' ./path/exec
//
// C07: "In lax mode a path built from accessors (.key, .*, [*], .**, and [i],
// [i to j] with literal or last-relative bounds) and filters over them never
// returns an error: ... subscripts treat a non-array as a one-element array."
//
// A literal (or last-relative) subscript whose value lies outside the int32
// range makes a lax path return an error, although a subscript that is merely
// beyond the end of the array (up to 2147483647) selects nothing, as lax mode
// requires.
package exec

import (
	"context"
	"reflect"
	"testing"

	"github.com/theory/sqljson/path/parser"
)

func TestZZLaxSubscriptBeyondInt32(t *testing.T) {
	ctx := context.Background()
	doc := []any{int64(10), int64(20), int64(30)}

	for _, tc := range []struct {
		path string
		want []any
	}{
		// control: the largest int32 is merely out of range of the array.
		{"lax $[2147483647]", []any{}},
		{"lax $[-2147483648]", []any{}},
		// one more and lax mode errs.
		{"lax $[2147483648]", []any{}},
		{"lax $[-2147483649]", []any{}},
		{"lax $[1e10]", []any{}},
		{"lax $[0 to 2147483648]", []any{int64(10), int64(20), int64(30)}},
		{"lax $[-2147483649 to 0]", []any{int64(10)}},
		{"lax $[last + 2147483647]", []any{}},
		// position: the offending subscript after a good one.
		{"lax $[0, 2147483648]", []any{int64(10)}},
		// a non-array is a one-element array.
		{"lax $[0][0 to 2147483648]", []any{int64(10)}},
	} {
		ast, err := parser.Parse(tc.path)
		if err != nil {
			t.Fatalf("%s: %v", tc.path, err)
		}

		got, err := Query(ctx, ast, doc)
		if err != nil {
			t.Errorf("%s on [10,20,30]: Query returned error %q; expected %v and no error, "+
				"because C07 says: \"In lax mode a path built from accessors (... [i], [i to j] "+
				"with literal or last-relative bounds) ... never returns an error\"",
				tc.path, err, tc.want)
			continue
		}
		if len(got) != len(tc.want) || (len(got) > 0 && !reflect.DeepEqual(got, tc.want)) {
			t.Errorf("%s: got %v, want %v", tc.path, got, tc.want)
		}
	}

	// The same defect makes Exists and Query disagree in lax mode: Exists
	// stops at the first item, Query meets the error.
	ast, err := parser.Parse("lax $[0, 2147483648]")
	if err != nil {
		t.Fatal(err)
	}
	ex, eerr := Exists(ctx, ast, doc)
	_, qerr := Query(ctx, ast, doc)
	if (eerr == nil) != (qerr == nil) {
		t.Errorf("lax $[0, 2147483648]: Exists = %v, %v but Query error = %v; "+
			"a lax accessor path \"never returns an error\" (C07), so both must succeed",
			ex, eerr, qerr)
	}
}
