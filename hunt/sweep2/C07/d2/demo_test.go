// Place in: path/exec (package exec). Run: go test -vet=off -count=1 -run 'ZZ' ./path/exec
//
// C07: "In lax mode a path built from accessors ... and filters over them
// never returns an error" - quantified over all documents.
//
// A document that holds the zero value of json.Number (which encoding/json
// itself marshals as 0) makes every numeric comparison in a filter panic: the
// call does not even return an error, it aborts the caller. The sibling
// conversions of json.Number (getJSONInt32, castJSONNumber) handle the same
// value without panicking.
package exec

import (
	"context"
	"encoding/json"
	"fmt"
	"testing"

	"github.com/theory/sqljson/path/parser"
)

func TestZZFilterOverZeroJSONNumberPanics(t *testing.T) {
	ctx := context.Background()

	// A Go-built document: record.Count is a json.Number field left at its
	// zero value. json.Marshal(doc) gives {"items":[0,1]}.
	var count json.Number
	doc := map[string]any{"items": []any{count, json.Number("1")}}
	if b, err := json.Marshal(doc); err != nil || string(b) != `{"items":[0,1]}` {
		t.Fatalf("unexpected marshalling %s, %v", b, err)
	}

	for _, path := range []string{
		"lax $.items[*] ? (@ == 1)",
		"lax $.items[*] ? (@ >= 0)",
		"lax $.items[*] ? (1 == @)",
		"lax $.items ? (@[*] > 0)",
		"lax $.** ? (@ == 1)",
		"strict $.items[*] ? (@ == 1)",
	} {
		ast, err := parser.Parse(path)
		if err != nil {
			t.Fatalf("%s: %v", path, err)
		}

		func() {
			defer func() {
				if r := recover(); r != nil {
					t.Errorf("%s on %s: PANIC %v; expected a result and no error: C07 says a lax "+
						"path of accessors \"and filters over them never returns an error\" "+
						"(a filter turns what it cannot compare into unknown)",
						path, fmt.Sprintf("%#v", doc), r)
				}
			}()
			if _, err := Query(ctx, ast, doc); err != nil {
				t.Errorf("%s: unexpected error %v", path, err)
			}
			if _, err := Exists(ctx, ast, doc); err != nil {
				t.Errorf("%s: unexpected Exists error %v", path, err)
			}
		}()
	}
}
