// Place in: path/exec (package exec). Run: go test -vet=off -count=1 -run 'ZZ' ./path/exec
//
// C07: "In lax mode a path built from accessors ... and filters over them
// never returns an error: a step applied to a value of the wrong shape yields
// no items".
//
// A Go-built document with a scalar of a Go type the executor does not know
// (here a plain int, the type of an untyped constant in a map literal) is
// passed through by every accessor, but a filter comparison that has it as
// its LEFT operand returns a hard 'exec invalid' error that WithSilent cannot
// suppress, while the mirrored comparison (value on the RIGHT) quietly
// evaluates to unknown.
package exec

import (
	"context"
	"testing"

	"github.com/theory/sqljson/path/parser"
)

func TestZZFilterLeftOperandOfUnknownGoType(t *testing.T) {
	ctx := context.Background()
	doc := map[string]any{"a": 1, "b": int64(1)} // "a" is a Go int

	type outcome struct {
		n   int
		err error
	}
	run := func(path string, opt ...Option) outcome {
		ast, err := parser.Parse(path)
		if err != nil {
			t.Fatalf("%s: %v", path, err)
		}
		got, err := Query(ctx, ast, doc, opt...)
		return outcome{len(got), err}
	}

	// Accessors alone are happy with the value.
	if o := run("lax $.*"); o.err != nil || o.n != 2 {
		t.Fatalf("lax $.*: %v", o)
	}

	left := run("lax $.* ? (@ == 1)")
	right := run("lax $.* ? (1 == @)")
	silent := run("lax $.* ? (@ == 1)", WithSilent())

	if left.err != nil {
		t.Errorf("lax $.* ? (@ == 1) on {\"a\": int(1), \"b\": int64(1)}: error %q; expected no error "+
			"(the int is not comparable: unknown, so the result is [1] from \"b\"), because C07 says a lax "+
			"path of accessors \"and filters over them never returns an error\"", left.err)
	}
	if silent.err != nil {
		t.Errorf("the same with WithSilent still errs: %q", silent.err)
	}
	if (left.err == nil) != (right.err == nil) || left.n != right.n {
		t.Errorf("'@ == 1' gives (%d items, err %v) but the mirrored '1 == @' gives (%d items, err %v); "+
			"== is symmetric, the two filters must select the same items",
			left.n, left.err, right.n, right.err)
	}
}
