// Belongs in: path/parser (package parser), e.g. path/parser/zz_d1_test.go
// Run with:   go test -vet=off -count=1 -run 'ZZ' ./path/parser/
package parser

import (
	"testing"

	"github.com/theory/sqljson/path/ast"
)

// Property C03: "For every abstract path and every concrete spelling of it
// that the documented syntax permits (... bare vs quoted vs escaped keys ...),
// Parse returns that abstract path".
//
// The documented syntax of a bare key is a JavaScript identifier: lex.go
// (isIdentRune) says "any character in the [ID_Start] category can start an
// identifier, while any character in the [ID_Continue] category can appear
// after the first character", with `$` as the only listed variation, and
// path/README.md says a key needs quotes only if it "does not meet the
// JavaScript rules for an identifier". The code tests XID_Start/XID_Continue
// (github.com/smasher164/xid) instead, which are proper subsets, and it leaves
// out ZWNJ/ZWJ, which ECMAScript's IdentifierPart includes.
func TestZZ_D1_BareKeyWithIDStartThatIsNotXIDStart(t *testing.T) {
	for _, tc := range []struct {
		name string
		key  string // the abstract key
		esc  string // the same key spelled bare with an escape
	}{
		{"U+0E33 THAI SARA AM starts a key (ID_Start, not XID_Start)", "\u0e33", `\u0E33`},
		{"U+0EB3 LAO VOWEL SIGN AM starts a key (ID_Start, not XID_Start)", "\u0eb3x", `\u0EB3x`},
		{"U+037A GREEK YPOGEGRAMMENI starts a key (ID_Start, not XID_Start)", "\u037a", `\u037A`},
		{"U+309B continues a key (ID_Continue, not XID_Continue)", "a\u309b", `a\u309B`},
		{"U+FDFA continues a key (ID_Continue, not XID_Continue)", "a\ufdfa", `a\uFDFA`},
		{"U+FF9E starts a key (ID_Start, XID_Continue only)", "\uff9ea", `\uFF9Ea`},
		{"ZWJ U+200D inside a key (ECMAScript IdentifierPart)", "a\u200db", `a\u200Db`},
		{"ZWNJ U+200C inside a key (ECMAScript IdentifierPart)", "a\u200cb", `a\u200Cb`},
	} {
		t.Run(tc.name, func(t *testing.T) {
			// The quoted and the escaped spelling are accepted and agree.
			for _, sp := range []string{`$."` + tc.key + `"`, `$.` + tc.esc} {
				a, err := Parse(sp)
				if err != nil {
					t.Fatalf("control spelling %q does not parse: %v", sp, err)
				}
				k, ok := a.Root().Next().(*ast.KeyNode)
				if !ok || k.Text() != tc.key || k.Next() != nil {
					t.Fatalf("control spelling %q gives %v, want key %q", sp, a, tc.key)
				}
			}

			// The bare spelling of the same abstract path.
			bare := "$." + tc.key
			a, err := Parse(bare)
			if err != nil {
				t.Fatalf("Parse(%q) = error %q; expected the path $.%q: C03 requires that "+
					"\"every concrete spelling ... that the documented syntax permits (... bare vs "+
					"quoted vs escaped keys ...)\" parses to the same abstract path, and the documented "+
					"syntax of a bare key is a JavaScript identifier (ID_Start then ID_Continue, "+
					"plus ZWNJ/ZWJ), which %q is", bare, err, tc.key, tc.key)
			}
			k, ok := a.Root().Next().(*ast.KeyNode)
			if !ok || k.Text() != tc.key || k.Next() != nil {
				t.Fatalf("Parse(%q) = %v, want key %q", bare, a, tc.key)
			}
		})
	}
}
