// Belongs in: path/parser (package parser), e.g. path/parser/zz_d2_test.go
// Run with:   go test -vet=off -count=1 -run 'ZZ' ./path/parser/
package parser

import (
	"strings"
	"testing"
)

// Property C03: "For every abstract path and every concrete spelling of it
// that the documented syntax permits (whitespace and comments, ...), Parse
// returns that abstract path ... The value of a token never depends on what
// follows it (end of input, whitespace or another token)".
//
// The lexer's whitespace set is the one of Go's text/scanner (space, \t, \n,
// \r). The form feed U+000C is white space in every grammar the package says
// it follows - PostgreSQL's jsonpath scanner (blank [ \t\n\r\f]), ECMAScript
// (WhiteSpace :: <TAB> <VT> <FF> <SP> ...), SQL and JSON path's parent
// standards - yet here it is handed to the parser as a token of its own, so a
// path that separates its tokens with a form feed is a syntax error.
func TestZZ_D2_FormFeedIsWhitespace(t *testing.T) {
	for _, spaced := range []string{
		"$ .a",
		" $",
		"$ ",
		"strict $.a",
		"$.a ? (@ > 1)",
		"$[0 to 2]",
		"1 + 2",
		"$.a == 1 && $.b == 2",
	} {
		want, err := Parse(spaced)
		if err != nil {
			t.Fatalf("control %q does not parse: %v", spaced, err)
		}
		ff := strings.ReplaceAll(spaced, " ", "\f")
		got, err := Parse(ff)
		if err != nil {
			t.Errorf("Parse(%q) = error %q; expected the same path as Parse(%q) = %v: C03 requires that every "+
				"spelling \"that the documented syntax permits (whitespace and comments, ...)\" parses to the same "+
				"abstract path, and a form feed is white space in PostgreSQL's jsonpath (blank [ \\t\\n\\r\\f]) "+
				"and in ECMAScript", ff, err, spaced, want)
			continue
		}
		if got.String() != want.String() || got.IsPredicate() != want.IsPredicate() || got.IsLax() != want.IsLax() {
			t.Errorf("Parse(%q) = %v, want %v", ff, got, want)
		}
	}
}
