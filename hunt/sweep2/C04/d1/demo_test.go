// Place in directory path/ (package path) of theory/sqljson.
// Run: go test -vet=off -count=1 -timeout 300s -run 'ZZ' ./path/
//
// Needs roughly 1 GB of memory and a few seconds: the smallest pattern that
// shows the defect has 33,554,433 characters.
package path

import (
	"context"
	"fmt"
	"strings"
	"testing"
)

// TestZZ_C04_QuotedRegexTooLargeAcceptedThenPanics: a like_regex pattern with
// flag "q" is validated with syntax.Parse(pattern, ...|syntax.Literal), which
// takes the "trivial parser for literal string" shortcut and applies none of
// the size limits of regexp/syntax. At execution the same pattern is compiled
// as regexp.MustCompile(regexp.QuoteMeta(pattern)), which does apply them
// (maxRunes = 128MiB/4 = 33,554,432 runes) and panics.
func TestZZ_C04_QuotedRegexTooLargeAcceptedThenPanics(t *testing.T) {
	const maxRunes = (128 << 20) / 4 // regexp/syntax.maxRunes
	pattern := strings.Repeat("a", maxRunes+1)
	in := `$ ? (@ like_regex "` + pattern + `" flag "q")`

	p, err := Parse(in)
	if err != nil {
		// Rejecting the path is the behaviour property C04 asks for.
		t.Logf("Parse rejected the path: %.120s", err.Error())
		return
	}

	var panicked any
	func() {
		defer func() { panicked = recover() }()
		_, _ = p.Query(context.Background(), "abc")
	}()
	if panicked != nil {
		msg := fmt.Sprint(panicked)
		if len(msg) > 160 {
			msg = msg[:60] + " ... " + msg[len(msg)-80:]
		}
		t.Fatalf("Parse accepted `$ ? (@ like_regex \"a…a\" flag \"q\")` with a %d-character pattern, "+
			"but executing it panicked: %s\n"+
			"C04 requires: \"Inputs the documented syntax forbids are rejected: ... patterns Go's regexp "+
			"cannot compile - so every accepted like_regex compiles at execution time.\" "+
			"Expected Parse to return an error wrapping path.ErrPath and parser.ErrParse (or the query to run), "+
			"because regexp.Compile(regexp.QuoteMeta(pattern)) fails with \"expression too large\".",
			len(pattern), msg)
	}
}
