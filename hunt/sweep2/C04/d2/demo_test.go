// Place in directory path/parser/ (package parser) of theory/sqljson.
// Run: go test -vet=off -count=1 -timeout 300s -run 'ZZ' ./path/parser/
package parser

import (
	"strings"
	"testing"
	"time"
)

// zzNested returns ((( ... ($).a).a ... ).a with n levels: 4n+1 bytes.
func zzNested(n int) string {
	return strings.Repeat("(", n) + "$" + strings.Repeat(").a", n)
}

// zzFlat returns a path of the same length and the same n accessors without
// the parentheses: $ .a .a .a ... (padding with blanks).
func zzFlat(n int) string {
	return "$" + strings.Repeat("  .a", n)
}

func zzTime(t *testing.T, in string) time.Duration {
	t.Helper()
	best := time.Duration(1<<62 - 1)
	for i := 0; i < 2; i++ {
		start := time.Now()
		ast, err := Parse(in)
		d := time.Since(start)
		if err != nil || ast == nil {
			t.Fatalf("valid path rejected: %v", err)
		}
		if d < best {
			best = d
		}
	}
	return best
}

// TestZZ_C04_NestedParenAccessorQuadratic: each reduction of
//
//	accessor_expr: '(' expr ')' accessor_op
//
// hands []ast.Node{$2, $4} to ast.LinkNodes, which walks the whole Next()
// chain of $2 to find its end. With n nested levels the chain has 1..n
// elements, so Parse does n*n/2 pointer steps: 320 kB of input take ~15 s,
// 1 MB takes minutes, 10 MB takes hours; the equally long flat path parses in
// milliseconds.
func TestZZ_C04_NestedParenAccessorQuadratic(t *testing.T) {
	const small, large = 5000, 40000 // 20 kB and 160 kB of input

	flatSmall, flatLarge := zzTime(t, zzFlat(small)), zzTime(t, zzFlat(large))
	nestSmall, nestLarge := zzTime(t, zzNested(small)), zzTime(t, zzNested(large))
	t.Logf("flat:   n=%d %v, n=%d %v", small, flatSmall, large, flatLarge)
	t.Logf("nested: n=%d %v, n=%d %v", small, nestSmall, large, nestLarge)

	growth := float64(nestLarge) / float64(nestSmall)
	// Input grew 8x. Linear work grows ~8x (allow 4x slack for GC and stack
	// growth); quadratic work grows ~64x.
	if growth > 32 {
		t.Errorf("Parse(%q...) time grew %.0fx (from %v to %v) when the input grew 8x (%d to %d bytes); "+
			"the flat path of the same length went from %v to %v. "+
			"C04 requires that Parse \"never panics, hangs or returns both nil\" \"for every byte string\": "+
			"expected parse time proportional to the input, as for every other shape of path; "+
			"with this shape a few megabytes of input keep Parse busy for hours "+
			"(ast.LinkNodes re-walks the whole accessor chain at every closing parenthesis).",
			zzNested(2), growth, nestSmall, nestLarge, 4*small+1, 4*large+1, flatSmall, flatLarge)
	}
}
