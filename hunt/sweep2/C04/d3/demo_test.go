// Place in directory path/ (package path) of theory/sqljson.
// Run: go test -vet=off -count=1 -timeout 120s -run 'ZZ' ./path/
package path

import (
	"errors"
	"testing"

	"github.com/theory/sqljson/path/parser"
)

// TestZZ_C04_RawCarriageReturnInStringAccepted: the lexer rejects a raw line
// feed inside a double-quoted literal ("literal not terminated", pinned by the
// project's own lex_test "string_with_newline") but accepts the sibling raw
// carriage return, in string literals, quoted keys and quoted variable names.
// The README says the embedded string literals "follow JavaScript/ECMAScript
// conventions"; ECMAScript forbids both unescaped line terminators <LF> and
// <CR> in a string literal (they have to be written \n and \r).
func TestZZ_C04_RawCarriageReturnInStringAccepted(t *testing.T) {
	// Control: raw LF is rejected in all three places.
	for _, in := range []string{"\"a\nb\"", "$.\"a\nb\"", "$\"a\nb\""} {
		if _, err := Parse(in); err == nil {
			t.Fatalf("control: raw LF accepted in %q", in)
		}
	}
	// Control: the escaped forms are accepted.
	for _, in := range []string{`"a\rb"`, `"a\nb"`} {
		if _, err := Parse(in); err != nil {
			t.Fatalf("control: %q rejected: %v", in, err)
		}
	}

	for _, in := range []string{"\"a\rb\"", "$.\"a\rb\"", "$\"a\rb\"", "\"a\r\nb\"", "$ ? (@ like_regex \"a\rb\")"} {
		p, err := Parse(in)
		if err == nil {
			t.Errorf("Parse(%q) accepted a string literal containing an unescaped carriage return (normalized: %q). "+
				"C04 requires: \"Inputs the documented syntax forbids are rejected: ... malformed numbers, escapes, "+
				"strings and comments\"; the documented syntax is \"embedded string literals follow "+
				"JavaScript/ECMAScript conventions\", where a string literal may contain neither a raw <LF> nor a "+
				"raw <CR>. Expected the same parse error as for the raw line feed in %q (\"literal not terminated\").",
				in, p.String(), "\"a\nb\"")
			continue
		}
		if !errors.Is(err, ErrPath) || !errors.Is(err, parser.ErrParse) {
			t.Errorf("Parse(%q): error %v does not wrap path.ErrPath and parser.ErrParse", in, err)
		}
	}
}
