// Place this file in path/exec (package exec) of theory/sqljson and run
//
//	go test -vet=off -count=1 -run 'ZZ' ./path/exec
//
// Property C08: "where the non-silent run fails with a suppressible error the
// silent run returns no error: the items found before the failure
// (Query/First), or NULL unless the answer was already established
// (Exists/Match)."
package exec

import (
	"context"
	"encoding/json"
	"errors"
	"testing"

	"github.com/theory/sqljson/path/parser"
)

func TestZZMatchSilentAnswersAfterFailure(t *testing.T) {
	ctx := context.Background()

	for _, tc := range []struct {
		name string
		path string
		doc  string
		// the same path on this sibling document, in which the failing item is
		// repaired, shows that the boolean met first does not establish the answer
		sibling string
	}{
		{
			name:    "strict missing key after a boolean",
			path:    `strict $[*].a`,
			doc:     `[{"a": true}, {}]`,
			sibling: `[{"a": true}, {"a": false}]`,
		},
		{
			name:    "lax item method failure after a boolean",
			path:    `lax $[*].boolean()`,
			doc:     `[false, "x"]`,
			sibling: `[false, "yes"]`,
		},
	} {
		t.Run(tc.name, func(t *testing.T) {
			ast, err := parser.Parse(tc.path)
			if err != nil {
				t.Fatal(err)
			}
			var doc, sibling any
			if err := json.Unmarshal([]byte(tc.doc), &doc); err != nil {
				t.Fatal(err)
			}
			if err := json.Unmarshal([]byte(tc.sibling), &sibling); err != nil {
				t.Fatal(err)
			}

			// Premise 1: the non-silent run fails with a suppressible error.
			_, verr := Match(ctx, ast, doc)
			if verr == nil || !errors.Is(verr, ErrVerbose) {
				t.Fatalf("premise: expected the non-silent Match to fail with an ErrVerbose error, got %v", verr)
			}

			// Premise 2: the answer is not established by the first item: with
			// the failing item repaired there are two items and Match has no
			// answer (error without WithSilent, NULL with it).
			if _, serr := Match(ctx, ast, sibling, WithSilent()); !errors.Is(serr, NULL) {
				t.Fatalf("premise: expected NULL for the sibling document, got %v", serr)
			}

			// Premise 3: the sibling entry point Exists reports the failed run
			// as NULL in strict mode (it needs the whole sequence, as Match does).
			if ast.IsStrict() {
				if _, eerr := Exists(ctx, ast, doc, WithSilent()); !errors.Is(eerr, NULL) {
					t.Fatalf("premise: expected Exists to say NULL, got %v", eerr)
				}
			}

			got, serr := Match(ctx, ast, doc, WithSilent())
			if !errors.Is(serr, NULL) {
				t.Errorf("Match(%s, %s, WithSilent()) = (%v, %v); want (false, NULL).\n"+
					"C08: \"where the non-silent run fails with a suppressible error the silent run returns no error: "+
					"the items found before the failure (Query/First), or NULL unless the answer was already established (Exists/Match)\".\n"+
					"The non-silent run failed with %q; the answer of Match (the single boolean item of the whole result) "+
					"is never established before the sequence is complete: the next item could have made it "+
					"\"single boolean result is expected\". Match answered from the partial list instead.",
					tc.path, tc.doc, got, serr, verr)
			}
		})
	}
}
