// Place this file in path/exec (package exec) and run:
//
//	go test -vet=off -count=1 -run 'ZZ' ./path/exec
//
// Property C12: "numbers by value across int64, float64 and json.Number ...
// items of different types and all arrays and objects compare as unknown".
//
// A json.Number whose text is not a number - in particular the ZERO VALUE
// json.Number(""), which encoding/json itself marshals as 0 - makes every
// comparison operator PANIC (compareNumeric: "This should not happen"),
// whereas every sibling (arithmetic, unary minus, .double(), .number() ...)
// refuses the same item with a suppressible error. A comparison must yield
// true, false or unknown (or an error value); it must not crash the caller.
package exec

import (
	"context"
	"encoding/json"
	"errors"
	"fmt"
	"testing"

	"github.com/theory/sqljson/path/parser"
)

func zzC12d2Match(path string, doc any, opt ...Option) (res string) {
	defer func() {
		if r := recover(); r != nil {
			res = fmt.Sprintf("PANIC: %v", r)
		}
	}()
	ast, err := parser.Parse(path)
	if err != nil {
		return "parse error: " + err.Error()
	}
	ok, err := Match(context.Background(), ast, doc, opt...)
	switch {
	case errors.Is(err, NULL):
		return "unknown"
	case err != nil:
		return "error: " + err.Error()
	}
	return fmt.Sprint(ok)
}

func TestZZ_C12_d2_InvalidJSONNumberPanics(t *testing.T) {
	var zero json.Number // what a Go struct field of type json.Number holds by default
	for _, bad := range []json.Number{zero, "abc", "1_000", "1e"} {
		for _, other := range []any{int64(1), float64(1.5), json.Number("2"), bad} {
			for _, op := range []string{"==", "!=", "<", "<=", ">", ">="} {
				for _, mode := range []string{"lax", "strict"} {
					for _, q := range []string{"$.a " + op + " $.b", "$.b " + op + " $.a"} {
						doc := map[string]any{"a": bad, "b": other}
						got := zzC12d2Match(mode+" "+q, doc, WithSilent())
						if len(got) >= 5 && got[:5] == "PANIC" {
							t.Fatalf(
								"%s %s with a=json.Number(%q) b=%v (%T) under WithSilent: %s\n"+
									"expected true, false or unknown (exec.NULL): C12 says comparisons \"agree with one "+
									"total order per type - numbers by value across int64, float64 and json.Number\" and "+
									"that items which are not comparable \"compare as unknown\"; an item that is not a "+
									"number by value cannot be ordered, and the sibling operations ($.a + 1, -$.a, "+
									"$.a.double()) report it as a suppressible error instead of panicking",
								mode, q, string(bad), other, other, got,
							)
						}
					}
				}
			}
		}
	}
}
