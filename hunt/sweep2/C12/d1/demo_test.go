// Place this file in path/exec (package exec) and run:
//
//	go test -vet=off -count=1 -run 'ZZ' ./path/exec
//
// Property C12: "==, != (<>), <, <=, >, >= agree with one total order per type
// - numbers by value across int64, float64 and json.Number ... for comparable
// items exactly one of <, ==, > holds, a < b iff b > a, <= and >= are the
// unions with ==, and the order is transitive".
//
// A float64 NaN (a Go-built document or a variable; also json.Number("NaN"),
// which strconv accepts) is treated by compareNumeric as EQUAL to every number
// whatever: 1 == NaN and NaN == 2 both answer true while 1 == 2 answers false,
// so "==" is not transitive, and NaN <= x and NaN >= x hold for every x.
package exec

import (
	"context"
	"encoding/json"
	"errors"
	"fmt"
	"math"
	"testing"

	"github.com/theory/sqljson/path/parser"
)

func zzC12d1Match(t *testing.T, path string, doc any, opt ...Option) string {
	t.Helper()
	ast, err := parser.Parse(path)
	if err != nil {
		t.Fatalf("parse %q: %v", path, err)
	}
	ok, err := Match(context.Background(), ast, doc, opt...)
	switch {
	case errors.Is(err, NULL):
		return "unknown"
	case err != nil:
		return "error: " + err.Error()
	}
	return fmt.Sprint(ok)
}

func TestZZ_C12_d1_NaNEqualsEveryNumber(t *testing.T) {
	for _, nan := range []any{math.NaN(), json.Number("NaN")} {
		failures := 0
		for _, mode := range []string{"lax", "strict"} {
			for _, one := range []any{int64(1), float64(1), json.Number("1")} {
				for _, two := range []any{int64(2), float64(2), json.Number("2")} {
					doc := map[string]any{"one": one, "nan": nan, "two": two}
					ab := zzC12d1Match(t, mode+" $.one == $.nan", doc)
					bc := zzC12d1Match(t, mode+" $.nan == $.two", doc)
					ac := zzC12d1Match(t, mode+" $.one == $.two", doc)
					if ab == "true" && bc == "true" && ac != "true" {
						failures++
						if failures > 1 {
							continue // one report per NaN representation is enough
						}
						t.Errorf(
							"%s, one=%T nan=%T two=%T: 1 == NaN is %s and NaN == 2 is %s but 1 == 2 is %s; "+
								"C12 requires \"the order is transitive\" (\"numbers by value across int64, "+
								"float64 and json.Number\"): NaN has no value equal to 1 and to 2 at once, "+
								"so the comparison must be unknown/an error, or NaN must take one fixed "+
								"place in the order",
							mode, one, nan, two, ab, bc, ac,
						)
					}
				}
			}
		}
		if failures > 1 {
			t.Errorf("nan=%T: %d of 18 (mode, representation) combinations break transitivity alike", nan, failures)
		}
	}

	// The same through variables and inside a filter: every number "equals" NaN.
	ast, err := parser.Parse(`$[*] ? (@ == $nan)`)
	if err != nil {
		t.Fatal(err)
	}
	doc := []any{int64(1), float64(2.5), json.Number("3"), math.Inf(1)}
	got, err := Query(context.Background(), ast, doc, WithVars(Vars{"nan": math.NaN()}))
	if err != nil || len(got) != 0 {
		t.Errorf(
			"$[*] ? (@ == $nan) over %v selected %v (err %v); expected nothing: no number is equal "+
				"by value to NaN (C12: \"numbers by value\", \"exactly one of <, ==, > holds\" cannot "+
				"make 1, 2.5, 3 and +Inf all equal to one item while they differ from each other)",
			doc, got, err,
		)
	}
}
