// Belongs in: path/exec  (package exec).  Run with:
//   go test -vet=off -count=1 -run 'ZZ' ./path/exec
//
// C09 d1: in strict mode an array subscript that stands below .** evaluates
// its subscript expression -- a path of its own, starting at $ or at a
// variable -- by relaxed (lax-like) structural rules. The relaxation that .**
// grants to "the accessors that follow it" leaks into the nested path.
package exec

import (
	"context"
	"errors"
	"fmt"
	"testing"

	"github.com/theory/sqljson/path/parser"
)

func zzC09d1Query(t *testing.T, path string, doc any, opts ...Option) ([]any, error) {
	t.Helper()
	p, err := parser.Parse(path)
	if err != nil {
		t.Fatalf("parse %q: %v", path, err)
	}
	return Query(context.Background(), p, doc, opts...)
}

func TestZZ_C09_d1_SubscriptBelowAnyPathIsEvaluatedLeniently(t *testing.T) {
	doc := map[string]any{
		"x":     []any{int64(10), int64(20), int64(30)},
		"arr":   []any{map[string]any{"k": int64(1)}, map[string]any{"j": int64(2)}},
		"mixed": []any{int64(7), map[string]any{"k": int64(1)}},
		"obj":   map[string]any{"p": []any{int64(1)}, "q": int64(5)},
	}
	vars := Vars{"v": []any{map[string]any{"k": int64(1)}, map[string]any{"j": int64(2)}}}

	// The nested path, on its own, fails in strict mode: that is what `$`
	// (or `$v`) followed by these steps denotes for this document.
	for _, tc := range []struct {
		nested string // the subscript expression
		why    string
	}{
		{`$.arr[*].k`, `the second element of $.arr has no key "k"`},
		{`$v[*].k`, `the second element of $v has no key "k"`},
		{`$.mixed[*].*`, `.* cannot be applied to the number 7`},
		{`$.obj.*[*]`, `[*] cannot be applied to the number 5`},
	} {
		t.Run(tc.nested, func(t *testing.T) {
			// 1. The nested path alone is an error in strict mode.
			if res, err := zzC09d1Query(t, "strict "+tc.nested, doc, WithVars(vars)); err == nil {
				t.Fatalf("precondition: strict %s should fail (%s), got %v", tc.nested, tc.why, res)
			}

			// 2. Control: as a subscript of a plain accessor chain the error
			// of the nested path is the error of the whole path.
			control := fmt.Sprintf("strict $.x[%s]", tc.nested)
			_, ctrlErr := zzC09d1Query(t, control, doc, WithVars(vars))
			if ctrlErr == nil {
				t.Fatalf("control %s should fail (%s)", control, tc.why)
			}

			// 3. `.**{0}` selects exactly the item itself, so `$.x.**{0}`
			// returns the same single item as `$.x`; the subscript that
			// follows contains a path that starts from `$`/`$v` again and
			// has nothing to do with the items .** produced.
			probe := fmt.Sprintf("strict $.x.**{0}[%s]", tc.nested)
			res, err := zzC09d1Query(t, probe, doc, WithVars(vars))
			if err == nil {
				t.Errorf("%s returned %v and no error.\n"+
					"Expected the same failure as %s (%v), because %s.\n"+
					"C09: \"Evaluating a step never disturbs its context ... and $ always denotes the whole document\"; "+
					"the rationale of C09 names \"the structural-error flag\" among the context that is threaded "+
					"\"through recursive calls with manual save/restore\". The subscript expression %s is a path of its own "+
					"(C09: \"a path that starts from a variable or a literal returns what the same steps return from $\"), "+
					"yet below .** it is evaluated with ignoreStructuralErrors still set, so in strict mode it "+
					"silently skips what it must report. The sibling construct, a filter below .**, was repaired "+
					"(\"A condition is evaluated by the rules of the path's mode, also below .**\"); the subscript was not.",
					probe, res, control, ctrlErr, tc.why, tc.nested)
			} else if !errors.Is(err, ErrVerbose) {
				t.Errorf("%s: unexpected kind of error %v", probe, err)
			}
		})
	}

	// Same defect seen through the other entry points.
	t.Run("Exists and silent", func(t *testing.T) {
		p, _ := parser.Parse(`strict $.x.**{0}[$.arr[*].k]`)
		c, _ := parser.Parse(`strict $.x[$.arr[*].k]`)
		okP, errP := Exists(context.Background(), p, doc)
		okC, errC := Exists(context.Background(), c, doc)
		if okP != okC || (errP == nil) != (errC == nil) {
			t.Errorf("Exists(strict $.x.**{0}[$.arr[*].k]) = %v, %v but Exists(strict $.x[$.arr[*].k]) = %v, %v; "+
				"both contain the same failing strict path $.arr[*].k and .**{0} is the identity on $.x", okP, errP, okC, errC)
		}
		resP, _ := Query(context.Background(), p, doc, WithSilent())
		resC, _ := Query(context.Background(), c, doc, WithSilent())
		if len(resP) != len(resC) {
			t.Errorf("silent: strict $.x.**{0}[$.arr[*].k] = %v but strict $.x[$.arr[*].k] = %v", resP, resC)
		}
	})
}
