// Place this file in path/exec (package exec) and run:
//   go test -vet=off -count=1 -run 'ZZ' ./path/exec
package exec

import (
	"context"
	"reflect"
	"testing"

	"github.com/theory/sqljson/path/parser"
)

// Property C05: "Execution is total and pure ... The queried value and the
// variables map are never modified".  A pure execution returns the same answer
// for the same (path, value, options).  The repair e4b6ab1 (".keyvalue() ids
// below a generated object changed on every execution") made that true one
// level below a generated triple; two levels below it is still false.
func TestZZKeyValueSecondLevelIDsArePure(t *testing.T) {
	t.Parallel()
	const text = `$.keyvalue().keyvalue() ? (@.key == "value").value.keyvalue().id`
	path, err := parser.Parse(text)
	if err != nil {
		t.Fatal(err)
	}

	// One document, never modified and never re-allocated between the calls.
	doc := map[string]any{"a": map[string]any{"b": int64(1)}}
	ctx := context.Background()

	first, err := Query(ctx, path, doc)
	if err != nil {
		t.Fatal(err)
	}
	if len(first) != 1 {
		t.Fatalf("expected one id, got %v", first)
	}

	keep := [][]any{first} // keep earlier results alive so that no address is reused
	for i := range 5 {
		again, err := Query(ctx, path, doc)
		if err != nil {
			t.Fatal(err)
		}
		keep = append(keep, again)
		if !reflect.DeepEqual(first, again) {
			t.Fatalf("C05 \"Execution is total and pure\": Query(%s) over the very same, unmodified "+
				"document returned %v on the first execution and %v on execution %d; "+
				"the id of the document's own object $.a must not depend on where the "+
				"intermediate .keyvalue() triples happen to be allocated (all results: %v)",
				text, first, again, i+2, keep)
		}
	}

	// First and Query of one path must agree as well.
	one, err := First(ctx, path, doc)
	if err != nil {
		t.Fatal(err)
	}
	if !reflect.DeepEqual(one, first[0]) {
		t.Fatalf("C05 pure: First returned %v, Query returned %v for the same path and document", one, first[0])
	}
}
