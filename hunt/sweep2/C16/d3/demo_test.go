// Place in: path/exec (package exec). Run with: go test -run 'ZZ' ./path/exec
//
// C16: .number() and .decimal(p,s) "accept their documented input types ...
// return the correctly rounded value, and return an error rather than a value
// outside ... the declared precision and scale (.decimal())". An int64 item
// (what a Go-built document, an integer literal, .bigint(), .integer() or
// integer arithmetic yields) is first converted to float64, so integers above
// 2^53 come back as a different number, and .decimal(p,0) refuses integers
// that have exactly p digits.
package exec

import (
	"context"
	"fmt"
	"math/big"
	"testing"

	"github.com/theory/sqljson/path/parser"
)

func TestZZNumberAndDecimalOfInt64(t *testing.T) {
	ctx := context.Background()
	q := func(p string, doc any) ([]any, error) {
		a, err := parser.Parse(p)
		if err != nil {
			t.Fatalf("parse %q: %v", p, err)
		}
		return Query(ctx, a, doc)
	}
	exact := func(v any) *big.Rat {
		switch v := v.(type) {
		case int64:
			return new(big.Rat).SetInt64(v)
		case float64:
			return new(big.Rat).SetFloat64(v)
		}
		return nil
	}

	// 1. .number() and .decimal() with room for every digit must not change an integer.
	for _, n := range []int64{9007199254740993, -9007199254740993, 9999999999999999, 1234567890123456789, 9223372036854775807} {
		for _, p := range []string{"$.number()", "$.decimal()", "$.decimal(19,0)", "$.decimal(30,5)", "$.bigint().number()"} {
			got, err := q(p, n)
			if err != nil || len(got) != 1 {
				t.Errorf("%s on int64 %d: %v %v", p, n, got, err)
				continue
			}
			if g := exact(got[0]); g == nil || g.Cmp(new(big.Rat).SetInt64(n)) != 0 {
				t.Errorf("C16 \"return the correctly rounded value\": %s on the int64 item %d returned %v (%T), exactly %s; "+
					"no rounding is asked for (the value is an integer with at most 19 digits), so the result must equal %d",
					p, n, got[0], got[0], zzFmtRatD3(g), n)
			}
		}
		// As seen from the path language itself.
		if got, err := q("$ ? (@.number() == @)", n); err != nil || len(got) != 1 {
			t.Errorf("C16: '$ ? (@.number() == @)' on int64 %d returned %v (%v): .number() of a number is not equal to the number", n, got, err)
		}
	}

	// 2. An integer of exactly p digits fits .decimal(p,0).
	for _, tc := range []struct {
		n int64
		p int
	}{
		{9999999999999999, 16},   // 16 nines
		{99999999999999999, 17},  // 17 nines
		{999999999999999999, 18}, // 18 nines
		{-9999999999999999, 16},
	} {
		p := fmt.Sprintf("$.decimal(%d,0)", tc.p)
		got, err := q(p, tc.n)
		if err != nil {
			t.Errorf("C16 \"return an error rather than a value outside ... the declared precision and scale\": "+
				"%s on the int64 item %d failed with %q, but %d has exactly %d digits and is inside the declared precision; expected %d",
				p, tc.n, err, tc.n, tc.p, tc.n)
			continue
		}
		if g := exact(got[0]); g == nil || g.Cmp(new(big.Rat).SetInt64(tc.n)) != 0 {
			t.Errorf("%s on int64 %d returned %v, expected %d", p, tc.n, got[0], tc.n)
		}
	}
}

func zzFmtRatD3(r *big.Rat) string {
	if r == nil {
		return "?"
	}
	return r.FloatString(0)
}
