// Place in: path/exec (package exec). Run with: go test -run 'ZZ' ./path/exec
//
// C16: ".keyvalue() yields one {key, value, id} object per member, ids ...
// stable over repeated executions". The id of an object reached through a
// variable is its distance from the exec.Vars map that was handed to
// WithVars, not from anything in the JSON data. A caller who writes
// exec.WithVars(exec.Vars{"v": doc}) at the call site (as the package's own
// examples do) gets a new map, and so other ids, on every execution with the
// very same document, path and variable value.
package exec

import (
	"context"
	"testing"

	"github.com/theory/sqljson/path/parser"
)

func TestZZKeyValueIDsOfVariablesAreStable(t *testing.T) {
	ctx := context.Background()
	inner := map[string]any{"b": int64(1)}
	val := map[string]any{"a": inner}
	doc := map[string]any{"x": int64(1)}

	for _, p := range []string{
		"$v.keyvalue().id",
		"$v.a.keyvalue().id",
		"$.keyvalue().id + $v.keyvalue().id",
	} {
		a, err := parser.Parse(p)
		if err != nil {
			t.Fatal(err)
		}
		// Three executions; each passes the same variable value in a Vars map
		// of its own. (Three maps kept alive at once cannot all lie at the same
		// distance from val, so the outcome does not depend on the allocator.)
		wrappers := []Vars{{"v": val}, {"v": val}, {"v": val}}
		var ids []any
		for _, w := range wrappers {
			got, err := Query(ctx, a, doc, WithVars(w))
			if err != nil || len(got) != 1 {
				t.Fatalf("%s: %v %v", p, got, err)
			}
			ids = append(ids, got[0])
		}
		if ids[0] != ids[1] || ids[1] != ids[2] {
			t.Errorf("C16 \".keyvalue() ... ids ... stable over repeated executions\": %s with the same document and the same "+
				"value for $v gave the ids %v in three executions; they differ only because each execution wrapped the value "+
				"in its own exec.Vars map. Expected the same id each time.", p, ids)
		}
		// Control: the same Vars map again gives the same id, so nothing else varies.
		again, _ := Query(ctx, a, doc, WithVars(wrappers[0]))
		if len(again) != 1 || again[0] != ids[0] {
			t.Errorf("%s: not even stable with the same Vars map: %v then %v", p, ids[0], again)
		}
	}
}
