// Place in: path/exec (package exec). Run with: go test -run 'ZZ' ./path/exec
//
// C16: ".string() output converts back to an equal value with the matching
// method". The datetime methods themselves produce dates outside the years
// 0000..9999 from inputs inside that range (rounding to a precision, casting a
// timestamptz to the context zone); .string() prints them with a five digit or
// negative year, which no datetime method reads back.
package exec

import (
	"context"
	"testing"

	"github.com/theory/sqljson/path/ast"
	"github.com/theory/sqljson/path/parser"
)

func TestZZStringOfYearBeyondFourDigits(t *testing.T) {
	ctx := context.Background()
	for _, tc := range []struct {
		name   string
		doc    string
		make   string // path that makes the value
		method string // the matching method for the way back
	}{
		{"rounding up the last microsecond of 9999", "9999-12-31 23:59:59.9999996", "$.timestamp(6)", "timestamp()"},
		{"rounding to seconds", "9999-12-31 23:59:59.5", "$.timestamp(0)", "timestamp()"},
		{"rounding a timestamptz", "9999-12-31 23:59:59.5+00", "$.timestamp_tz(0)", "timestamp_tz()"},
		{"timestamptz -14:00 cast to a date in UTC", "9999-12-31 23:59:59-14:00", "$.date()", "date()"},
		{"timestamptz -14:00 cast to a timestamp in UTC", "9999-12-31 23:59:59-14:00", "$.timestamp()", "timestamp()"},
		{"timestamptz +14:00 cast to a date in UTC", "0000-01-01 00:00:00+14:00", "$.date()", "date()"},
		{"timestamptz +14:00 cast to a timestamp in UTC", "0000-01-01 00:00:00+14:00", "$.timestamp()", "timestamp()"},
	} {
		t.Run(tc.name, func(t *testing.T) {
			orig, err := Query(ctx, zzParseD2(t, tc.make), tc.doc, WithTZ())
			if err != nil || len(orig) != 1 {
				t.Fatalf("setup: %q %s: %v %v", tc.doc, tc.make, orig, err)
			}
			str, err := Query(ctx, zzParseD2(t, tc.make+".string()"), tc.doc, WithTZ())
			if err != nil || len(str) != 1 {
				t.Fatalf("%q %s.string(): %v %v", tc.doc, tc.make, str, err)
			}
			back, err := Query(ctx, zzParseD2(t, "$."+tc.method), str[0], WithTZ())
			if err != nil || len(back) != 1 {
				t.Errorf("C16 \".string() output converts back to an equal value with the matching method\": "+
					"%s on %q is %v, a value the library made itself; .string() gave %q, but %q.%s fails: %v. "+
					"Expected either an error from %s (value out of range) or a string that .%s reads back.",
					tc.make, tc.doc, orig[0], str[0], str[0], tc.method, err, tc.make, tc.method)
				return
			}
			eq, err := Query(ctx, zzParseD2(t, "$a == $b"), nil, WithTZ(), WithVars(Vars{"a": orig[0], "b": back[0]}))
			if err != nil || len(eq) != 1 || eq[0] != true {
				t.Errorf("C16 round trip of %v through %q gave %v (== says %v, %v)", orig[0], str[0], back[0], eq, err)
			}
		})
	}
}

func zzParseD2(t *testing.T, p string) *ast.AST {
	t.Helper()
	a, err := parser.Parse(p)
	if err != nil {
		t.Fatalf("parse %q: %v", p, err)
	}
	return a
}
