// Place in: path/exec (package exec). Run with: go test -run 'ZZ' ./path/exec
//
// C16: ".string() output converts back to an equal value with the matching
// method". A timestamptz or timetz whose UTC offset has a seconds part (every
// tz database zone before it adopted standard time, e.g. America/New_York
// before 1883-11-18 is -04:56:02) is printed by .string() with the seconds of
// the offset cut off, so the string denotes a different instant.
package exec

import (
	"context"
	"testing"
	"time"

	"github.com/theory/sqljson/path/ast"
	"github.com/theory/sqljson/path/parser"
	"github.com/theory/sqljson/path/types"
)

func TestZZStringDropsOffsetSeconds(t *testing.T) {
	// Local mean time of New York, what time.LoadLocation("America/New_York")
	// yields for dates before 1883. A fixed zone keeps the test independent of
	// the installed tz database.
	lmt := time.FixedZone("LMT", -(4*3600 + 56*60 + 2))
	ctx := types.ContextWithTZ(context.Background(), lmt)

	for _, tc := range []struct {
		name   string
		doc    any
		method string // the method that made the value and converts it back
	}{
		{"timestamp cast to timestamptz in the context zone", "1800-01-01 00:00:00", "timestamp_tz()"},
		{"date cast to timestamptz in the context zone", "1800-01-01", "timestamp_tz()"},
		{"timestamptz cast to timetz in the context zone", "1800-01-01 12:00:00+00", "time_tz()"},
	} {
		t.Run(tc.name, func(t *testing.T) {
			orig, err := Query(ctx, zzParseD1(t, "$."+tc.method), tc.doc, WithTZ())
			if err != nil || len(orig) != 1 {
				t.Fatalf("setup: %v %v", orig, err)
			}
			str, err := Query(ctx, zzParseD1(t, "$."+tc.method+".string()"), tc.doc, WithTZ())
			if err != nil || len(str) != 1 {
				t.Fatalf("setup: %v %v", str, err)
			}
			back, err := Query(ctx, zzParseD1(t, "$."+tc.method), str[0], WithTZ())
			if err != nil || len(back) != 1 {
				t.Fatalf("%q.%s: %v %v", str[0], tc.method, back, err)
			}
			eq, err := Query(ctx, zzParseD1(t, "$a == $b"), nil, WithTZ(),
				WithVars(Vars{"a": orig[0], "b": back[0]}))
			if err != nil {
				t.Fatal(err)
			}
			o := orig[0].(types.DateTime).GoTime()
			b := back[0].(types.DateTime).GoTime()
			if len(eq) != 1 || eq[0] != true {
				_, off := o.Zone()
				t.Errorf("C16 \".string() output converts back to an equal value with the matching method\": "+
					"%q.%s has UTC offset %d s (%s); .string() gave %q, and %q.%s is %s: the two differ by %v (path '$a == $b' says %v). "+
					"Expected .string() to keep the seconds of the offset (as PostgreSQL prints -04:56:02) so that the value converts back.",
					tc.doc, tc.method, off, o.Format("2006-01-02T15:04:05.999999999-07:00:00"), str[0], str[0], tc.method,
					b.Format(time.RFC3339Nano), b.Sub(o), eq)
			}
		})
	}

	// The same with a value put into a Go-built document directly.
	t.Run("typed value in the document", func(t *testing.T) {
		val := types.NewTimestampTZ(context.Background(),
			time.Date(2024, 1, 1, 0, 0, 0, 0, time.FixedZone("", 5*3600+30*60+15)))
		str, err := Query(context.Background(), zzParseD1(t, "$.string()"), val)
		if err != nil || len(str) != 1 {
			t.Fatalf("setup: %v %v", str, err)
		}
		eq, err := Query(context.Background(), zzParseD1(t, "$.string().timestamp_tz() == $"), val)
		if err != nil {
			t.Fatal(err)
		}
		if len(eq) != 1 || eq[0] != true {
			t.Errorf("C16 \".string() output converts back to an equal value with the matching method\": "+
				"timestamptz 2024-01-01T00:00:00+05:30:15 printed as %q; '$.string().timestamp_tz() == $' gave %v, expected [true]",
				str[0], eq)
		}
	})
}

func zzParseD1(t *testing.T, p string) *ast.AST {
	t.Helper()
	a, err := parser.Parse(p)
	if err != nil {
		t.Fatalf("parse %q: %v", p, err)
	}
	return a
}
