// Place this file in directory path/ of the sqljson module (package path),
// e.g. /tmp/mut/C12/path/zz_c12_d1_demo_test.go, and run
//
//	go test -vet=off -count=1 -run 'ZZ' ./path/
//
// Property C12: "==, != (<>), <, <=, >, >= agree with one total order per type
// - numbers by value across int64, float64 and json.Number".
//
// Defect: a json.Number that does not parse as an int64 is first rounded to a
// float64 (±Inf when out of range, 0 on underflow, nearest double otherwise)
// and only then compared, so distinct numbers compare as equal and equal
// numbers compare as different.
package path

import (
	"context"
	"encoding/json"
	"fmt"
	"math/big"
	"strings"
	"testing"
)

func TestZZC12D1JSONNumberComparedByValue(t *testing.T) {
	jn := func(s string) json.Number { return json.Number(s) }
	type pair struct{ a, b any }
	pairs := []pair{
		// beyond float64 range: both become +Inf / -Inf
		{jn("1e400"), jn("1e500")},
		{jn("-1e500"), jn("-1e400")},
		// beyond int64 range: both become 9223372036854775808.0
		{jn("9223372036854775808"), jn("9223372036854775809")},
		{jn("-9223372036854775810"), jn("-9223372036854775809")},
		// below float64 resolution: becomes 0
		{int64(0), jn("1e-400")},
		{jn("-1e-400"), float64(0)},
		// same value, different spelling: "….0" is rounded to 2^53
		{jn("9007199254740993.0"), int64(9007199254740993)},
		{jn("9007199254740993"), jn("9007199254740993.0")},
		// 2^53+0.5 is rounded down to 2^53
		{int64(9007199254740992), jn("9007199254740992.5")},
		{float64(9007199254740992), jn("9007199254740992.5")},
	}
	rat := func(v any) *big.Rat {
		switch v := v.(type) {
		case int64:
			return new(big.Rat).SetInt64(v)
		case float64:
			return new(big.Rat).SetFloat64(v)
		case json.Number:
			r, ok := new(big.Rat).SetString(string(v))
			if !ok {
				t.Fatalf("bad number %q", v)
			}
			return r
		}
		t.Fatalf("unexpected %T", v)
		return nil
	}
	holds := func(op string, c int) bool {
		switch op {
		case "==":
			return c == 0
		case "!=", "<>":
			return c != 0
		case "<":
			return c < 0
		case "<=":
			return c <= 0
		case ">":
			return c > 0
		default: // ">="
			return c >= 0
		}
	}
	ctx := context.Background()
	for _, pr := range pairs {
		for _, ord := range []pair{{pr.a, pr.b}, {pr.b, pr.a}} {
			c := rat(ord.a).Cmp(rat(ord.b)) // exact comparison by value
			var wrong []string
			for _, op := range []string{"==", "!=", "<>", "<", "<=", ">", ">="} {
				for _, mode := range []string{"strict", "lax"} {
					res, err := MustParse(mode+" $.a "+op+" $.b").Query(ctx, map[string]any{"a": ord.a, "b": ord.b})
					if err != nil {
						t.Errorf("%s %T(%v) %s %T(%v): unexpected error %v", mode, ord.a, ord.a, op, ord.b, ord.b, err)
						continue
					}
					if want := holds(op, c); len(res) != 1 || res[0] != want {
						wrong = append(wrong, fmt.Sprintf("%s %s gives %v, want [%v]", mode, op, res, want))
					}
				}
			}
			if len(wrong) > 0 {
				t.Errorf("%T(%v) versus %T(%v): %s.\n\tProperty C12 requires the comparison operators to order "+
					"\"numbers by value across int64, float64 and json.Number\"; by value (math/big) "+
					"the left operand compares %+d to the right one.",
					ord.a, ord.a, ord.b, ord.b, strings.Join(wrong, "; "), c)
			}
		}
	}
}
