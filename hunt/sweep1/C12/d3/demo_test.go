// Place this file in directory path/ of the sqljson module (package path),
// e.g. /tmp/mut/C12/path/zz_c12_d3_demo_test.go, and run
//
//	go test -vet=off -count=1 -run 'ZZ' ./path/
//
// Property C12: "null equals only null, and items of different types and all
// arrays and objects compare as unknown. Over sequences ... strict mode makes
// any incomparable pair unknown".
//
// Defect: when exactly one operand is JSON null the comparison is decided
// before the other operand's type is looked at, so an array or an object
// compared with null yields a definite false (==, <, <=, >, >=) or true
// (!=, <>) instead of unknown. An array/object compared with anything else
// (a number, a string, a bool, another array/object, even itself) is unknown.
package path

import (
	"context"
	"fmt"
	"strings"
	"testing"
)

func TestZZC12D3NullVersusArrayOrObject(t *testing.T) {
	ctx := context.Background()
	containers := []any{
		map[string]any{"x": int64(1)},
		[]any{int64(1), int64(2)},
		[]any{nil},
	}
	for _, c := range containers {
		var wrong []string
		for _, op := range []string{"==", "!=", "<>", "<", "<=", ">", ">="} {
			for _, doc := range []map[string]any{{"a": nil, "b": c}, {"a": c, "b": nil}} {
				// strict mode: no unwrapping, $.a and $.b are compared as they are.
				path := "strict $.a " + op + " $.b"
				got, err := MustParse(path).Query(ctx, doc)
				if err != nil || fmt.Sprint(got) != "[<nil>]" {
					side := "null " + op + " it"
					if doc["b"] == nil {
						side = "it " + op + " null"
					}
					wrong = append(wrong, fmt.Sprintf("%s = %v (err %v)", side, got, err))
				}

				// The sibling case: the same container against a non-null scalar is unknown.
				sib := map[string]any{"a": doc["a"], "b": doc["b"]}
				for k, v := range sib {
					if v == nil {
						sib[k] = int64(0)
					}
				}
				got, err = MustParse(path).Query(ctx, sib)
				if err != nil || fmt.Sprint(got) != "[<nil>]" {
					t.Errorf("sibling: %s on %v = %v, %v; want [null]", path, sib, got, err)
				}
			}
		}
		if len(wrong) > 0 {
			t.Errorf("strict `$.a OP $.b` with one side null and the other %v (%T): %s.\n\tWant [null] (unknown) "+
				"for every operator: property C12 says \"null equals only null, and items of different types "+
				"and all arrays and objects compare as unknown\"", c, c, strings.Join(wrong, "; "))
		}
	}

	// Consequence over sequences: in strict mode one incomparable pair must make
	// the predicate unknown, but an object hidden among nulls goes unnoticed.
	doc := []any{nil, map[string]any{}}
	got, err := MustParse("strict $[*] == null").Query(ctx, doc)
	if err != nil || fmt.Sprint(got) != "[<nil>]" {
		t.Errorf("strict $[*] == null on [null, {}] = %v, %v; want [null]: property C12 says \"strict mode "+
			"makes any incomparable pair unknown\" and the pair ({}, null) is incomparable because \"all "+
			"arrays and objects compare as unknown\"", got, err)
	}
	// (With 0 instead of null the very same query is unknown.)
	got, err = MustParse("strict $[*] == 0").Query(ctx, []any{int64(0), map[string]any{}})
	if err != nil || fmt.Sprint(got) != "[<nil>]" {
		t.Errorf("sibling: strict $[*] == 0 on [0, {}] = %v, %v; want [null]", got, err)
	}
}
