// Place this file in directory path/ of the sqljson module (package path),
// e.g. /tmp/mut/C12/path/zz_c12_d4_demo_test.go, and run
//
//	go test -vet=off -count=1 -run 'ZZ' ./path/
//
// Property C12: "datetimes by instant ...: for comparable items exactly one of
// <, ==, > holds, a < b iff b > a, <= and >= are the unions with ==, and the
// order is transitive".
//
// Defect: with WithTZ() a timestamp (or date) is compared with a timestamptz
// by converting its wall clock to an instant with time.Date in the context
// time zone. For a wall clock that does not exist in that zone (the hour
// skipped when daylight saving time starts) time.Date moves the reading BACK by
// the width of the gap, so the conversion is not monotone, and the comparison
// of timestamps with timestamptz values contradicts the comparison of the
// timestamps among themselves: the order is not transitive.
package path

import (
	"context"
	"fmt"
	"testing"
	"time"

	"github.com/theory/sqljson/path/exec"
	"github.com/theory/sqljson/path/types"
)

func TestZZC12D4TransitivityAcrossDSTGap(t *testing.T) {
	ny, err := time.LoadLocation("America/New_York")
	if err != nil {
		t.Skipf("no time zone database: %v", err)
	}
	ctx := types.ContextWithTZ(context.Background(), ny)

	// On 2023-03-12 New York jumps from 02:00 EST straight to 03:00 EDT.
	const (
		a = "2023-03-12T01:45:00"    // timestamp, exists:        06:45 UTC
		b = "2023-03-12T02:30:00"    // timestamp, in the DST gap
		c = "2023-03-12T06:30:00+00" // timestamptz, 01:30 EST, i.e. BEFORE a
	)
	rel := func(x, y string) string {
		out := ""
		for _, op := range []string{"<", "==", ">"} {
			res, err := MustParse("strict $.x.datetime() "+op+" $.y.datetime()").
				Query(ctx, map[string]any{"x": x, "y": y}, exec.WithTZ())
			if err != nil {
				t.Fatalf("%s %s %s: %v", x, op, y, err)
			}
			if fmt.Sprint(res) == "[true]" {
				out += op
			}
		}
		return out
	}

	ab, bc, ac := rel(a, b), rel(b, c), rel(a, c)
	t.Logf("a=%s  b=%s  c=%s", a, b, c)
	t.Logf("a ? b: %q   b ? c: %q   a ? c: %q", ab, bc, ac)
	if ab != "<" {
		t.Fatalf("setup: expected a < b (same type, wall clocks 01:45 < 02:30), got %q", ab)
	}
	// Whatever b ? c is, transitivity constrains a ? c.
	switch bc {
	case "==", "<":
		if ac != "<" {
			t.Errorf("a < b and b %s c, yet a %s c: property C12 says of the comparison operators on "+
				"datetimes \"the order is transitive\", so a < c is required. (timestamp %s is "+
				"converted to an instant EARLIER than the one timestamp %s is converted to, although "+
				"it is the later timestamp.)", bc, ac, b, a)
		}
	case ">":
		// b > c and a < b say nothing about a ? c; try the mirrored chain c < b, b > a.
		t.Logf("b > c; no constraint from this chain")
	default:
		t.Errorf("b ? c: exactly one of <, ==, > must hold, got %q", bc)
	}

	// The same with three values that are pairwise comparable and all different:
	// a2 < b2 (timestamps), b2 < c2, but c2 < a2.
	const (
		a2 = "2023-03-12T01:50:00"    // timestamp -> 06:50 UTC
		b2 = "2023-03-12T02:30:00"    // timestamp -> 06:30 UTC (moved back)
		c2 = "2023-03-12T06:40:00+00" // timestamptz
	)
	if r1, r2, r3 := rel(a2, b2), rel(b2, c2), rel(a2, c2); r1 == "<" && r2 == "<" && r3 != "<" {
		t.Errorf("cycle: %s < %s and %s < %s, yet %s %s %s: property C12 requires \"the order is transitive\"",
			a2, b2, b2, c2, a2, r3, c2)
	}
}
