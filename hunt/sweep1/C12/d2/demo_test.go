// Place this file in directory path/ of the sqljson module (package path),
// e.g. /tmp/mut/C12/path/zz_c12_d2_demo_test.go, and run
//
//	go test -vet=off -count=1 -run 'ZZ' ./path/
//
// Property C12: "like_regex [is true] exactly when Go's regexp matches under
// the translated flags (i, s, m; q = literal substring)".
//
// Defect: patterns using Unicode character classes (\pL, \p{Greek}, \PL,
// [\p{Lu}] ...) are valid for Go's regexp package (regexp.Compile parses with
// syntax.Perl, which includes syntax.UnicodeGroups) and match as expected
// there, but the library validates the pattern with a hand-assembled flag set
// that lacks syntax.UnicodeGroups, so like_regex can never be evaluated for
// them: the path is rejected with "invalid escape sequence: `\p`". With flag
// "q" (validation skipped by syntax.Literal) the very same flag translation
// accepts the pattern, which shows that only the validation flags are off.
package path

import (
	"context"
	"fmt"
	"regexp"
	"testing"

	"github.com/theory/sqljson/path/ast"
)

func TestZZC12D2UnicodeClassPatterns(t *testing.T) {
	ctx := context.Background()
	for _, tc := range []struct {
		pattern string // regexp text
		flags   string
		goRe    string // what the documented flag translation yields
	}{
		{`^\pL+$`, "", `^\pL+$`},
		{`\p{Greek}`, "", `\p{Greek}`},
		{`^\PL+$`, "", `^\PL+$`},
		{`^[\p{Lu}\d]+$`, "i", `(?i)^[\p{Lu}\d]+$`},
		{`^\p{Latin}.\p{Latin}$`, "s", `(?s)^\p{Latin}.\p{Latin}$`},
	} {
		oracle, err := regexp.Compile(tc.goRe)
		if err != nil {
			t.Fatalf("oracle: Go's regexp rejects %q: %v", tc.goRe, err)
		}

		// 1. Through the AST constructor (what the parser calls).
		if _, err := ast.NewRegex(ast.NewConst(ast.ConstRoot), tc.pattern, tc.flags); err != nil {
			t.Errorf("ast.NewRegex($, %q, %q) failed: %v; Go's regexp compiles %q without error, and "+
				"property C12 says like_regex is true \"exactly when Go's regexp matches under the "+
				"translated flags\"", tc.pattern, tc.flags, err, tc.goRe)
		}

		// 2. Through the public API.
		pathText := fmt.Sprintf("$[*] ? (@ like_regex %q", tc.pattern)
		if tc.flags != "" {
			pathText += fmt.Sprintf(" flag %q", tc.flags)
		}
		pathText += ")"
		doc := []any{"abc", "αβγ", "ABC1", "a\nb", "123", "", "é"}
		var want []any
		for _, s := range doc {
			if oracle.MatchString(s.(string)) {
				want = append(want, s)
			}
		}
		p, err := Parse(pathText)
		if err != nil {
			t.Errorf("Parse(%s) failed: %v; want it to select %v, the elements of %v that Go's "+
				"regexp %q matches (property C12: like_regex is true \"exactly when Go's regexp "+
				"matches under the translated flags\")", pathText, err, want, doc, tc.goRe)
			continue
		}
		got, err := p.Query(ctx, doc)
		if err != nil || fmt.Sprint(got) != fmt.Sprint(want) {
			t.Errorf("%s on %v = %v, %v; want %v", pathText, doc, got, err, want)
		}
	}
}
