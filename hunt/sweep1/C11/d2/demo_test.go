// Belongs in: path/exec  (package exec)
// Run with:   go test -vet=off -count=1 -run 'ZZ' ./path/exec
//
// Property C11: "... exists(e) is true or false by the emptiness of e and
// unknown only when e fails. As a top-level predicate check these yield true,
// false or null from Query and the corresponding Match outcome."
//
// Defect: in lax mode the outcome of one and the same condition on one and the
// same document is either TRUE or a non-suppressible (hard) error from run to
// run, when the condition's operand walks an object with .* (or .**) and one
// member yields a true pair / an item while another member raises a hard
// error. The members are visited in Go's random map order, and lax mode stops
// at the first true pair / first item. So the operand has no well defined
// true/false/unknown/error outcome for the connectives to combine, and Query
// and Match of the same predicate check disagree.
package exec

import (
	"context"
	"errors"
	"testing"

	"github.com/theory/sqljson/path/parser"
)

func TestZZC11OutcomeDependsOnMapOrder(t *testing.T) {
	ctx := context.Background()
	// "x" is a date, "y" a timestamp with time zone. Comparing y with a date,
	// or casting y to a date, needs WithTZ() and is otherwise a hard
	// (ErrExecution, not ErrVerbose) error.
	doc := map[string]any{"o": map[string]any{
		"x": "2020-01-01",
		"y": "2020-01-02T00:00:00+00",
	}}

	for _, cond := range []string{
		`$.o.*.datetime() > "2019-01-01".datetime()`,
		`exists($.o.*.date())`,
		`!($.o.*.datetime() > "2019-01-01".datetime())`,
	} {
		p, err := parser.Parse(cond)
		if err != nil {
			t.Fatal(err)
		}

		seen := map[string]int{}
		disagree := 0
		for range 400 {
			var q string
			res, qerr := Query(ctx, p, doc)
			switch {
			case qerr != nil:
				q = "hard error"
				if errors.Is(qerr, ErrVerbose) {
					t.Fatalf("expected a non-suppressible error, got %v", qerr)
				}
			case len(res) == 1 && res[0] == true:
				q = "true"
			case len(res) == 1 && res[0] == false:
				q = "false"
			case len(res) == 1 && res[0] == nil:
				q = "null"
			default:
				t.Fatalf("%s: unexpected result %v", cond, res)
			}
			seen[q]++

			// "the corresponding Match outcome"
			m, merr := Match(ctx, p, doc)
			var mo string
			switch {
			case merr == nil && m:
				mo = "true"
			case merr == nil:
				mo = "false"
			case errors.Is(merr, NULL):
				mo = "null"
			default:
				mo = "hard error"
			}
			if mo != q {
				disagree++
			}
		}

		if len(seen) != 1 {
			t.Errorf("%s on a fixed document gave outcomes %v over 400 evaluations (Query and Match disagreed %d times);\n"+
				"  expected one outcome: C11 combines \"their operands' true/false/unknown outcomes\" and says a top-level predicate check "+
				"yields \"true, false or null from Query and the corresponding Match outcome\", which presupposes that a condition has ONE outcome on a document",
				cond, seen, disagree)
		}
	}
}
