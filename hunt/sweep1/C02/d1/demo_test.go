// Belongs in directory path/ of theory/sqljson (package path), e.g. as
// path/zz_c02_d1_test.go. Run with:
//
//	go test -vet=off -count=1 -run 'ZZ' ./path
//
// Property C02: "For every path p accepted by Parse, Parse(p.String())
// succeeds and yields a path with the same mode, predicate flag and tree that
// returns the same results as p on every document, and String is a fixed
// point: Parse(p.String()).String() == p.String(). The same holds through
// MarshalText/UnmarshalText, MarshalBinary/UnmarshalBinary and Value/Scan".
// Quantifier: "every string/key/variable content (control characters, quotes,
// backslashes, BMP and astral code points)".
//
// Defect: strings, keys, variables, regex patterns and datetime templates are
// printed with strconv.Quote (Go syntax), but re-read by an ECMAScript-style
// lexer. Go's \a (U+0007) and \UXXXXXXXX (astral code points that are not
// printable) are not escapes of that lexer: it reads "\a" as "a" and
// "\U000e0001" as "U000e0001".
package path

import (
	"context"
	"reflect"
	"testing"
)

const zzClause = `C02: "Parse(p.String()) succeeds and yields a path with the same ... tree that returns the same results as p on every document, and String is a fixed point"`

type zzCase struct {
	name string
	src  string // path text accepted by Parse
	doc  any    // document on which p answers `want`
	want []any
}

func zzCases() []zzCase {
	bell := "\a"               // U+0007
	tag := "\U000E0001"        // U+E0001 LANGUAGE TAG: astral, not printable
	pua := "\U000F0000"        // U+F0000 plane-15 private use: astral, not printable
	unassigned := "\U0003FFFD" // unassigned astral code point
	return []zzCase{
		{"string U+0007 via \\u0007", `$.a == "\u0007"`, map[string]any{"a": bell}, []any{true}},
		{"string U+0007 via \\x07", `$.a == "x\x07y"`, map[string]any{"a": "x" + bell + "y"}, []any{true}},
		{"key U+0007", `$."k\u0007"`, map[string]any{"k" + bell: int64(1), "ka": int64(2)}, []any{int64(1)}},
		{"starts with prefix U+0007", `$.a starts with "\u0007"`, map[string]any{"a": bell + "z"}, []any{true}},
		{"regex pattern U+0007", `$.a like_regex "^\u0007$"`, map[string]any{"a": bell}, []any{true}},
		{"string U+E0001 raw", `$.a == "` + tag + `"`, map[string]any{"a": tag}, []any{true}},
		{"string U+E0001 via \\u{e0001}", `$.a == "\u{e0001}"`, map[string]any{"a": tag}, []any{true}},
		{"string U+E0001 via surrogates", `$.a == "\udb40\udc01"`, map[string]any{"a": tag}, []any{true}},
		{"key U+F0000", `$."` + pua + `"`, map[string]any{pua: int64(1), "U000f0000": int64(2)}, []any{int64(1)}},
		{"regex pattern U+3FFFD", `$.a like_regex "^` + unassigned + `$"`, map[string]any{"a": unassigned}, []any{true}},
	}
}

func TestZZ_C02_D1_QuoteNotReadBackByLexer(t *testing.T) {
	ctx := context.Background()
	for _, tc := range zzCases() {
		t.Run(tc.name, func(t *testing.T) {
			p, err := Parse(tc.src)
			if err != nil {
				t.Fatalf("precondition: Parse(%q) must succeed: %v", tc.src, err)
			}
			got, err := p.Query(ctx, tc.doc)
			if err != nil || !reflect.DeepEqual(got, tc.want) {
				t.Fatalf("precondition: p=%q on the document must give %v, got %v, %v", tc.src, tc.want, got, err)
			}

			text := p.String()
			q, err := Parse(text)
			if err != nil {
				t.Fatalf("%s\nParse(p.String()) failed for p=%q: String()=%q: %v", zzClause, tc.src, text, err)
			}

			// String must be a fixed point.
			if q.String() != text {
				t.Errorf("%s\np=%q: p.String()=%q but Parse(p.String()).String()=%q; "+
					"expected them to be equal (String is a fixed point)", zzClause, tc.src, text, q.String())
			}

			// Same results on the document.
			got2, err2 := q.Query(ctx, tc.doc)
			if err2 != nil || !reflect.DeepEqual(got2, tc.want) {
				t.Errorf("%s\np=%q answers %v on the document, but the path re-parsed from p.String()=%q answers %v (err %v); "+
					"expected the same results because the printed text must denote the same string content",
					zzClause, tc.src, tc.want, text, got2, err2)
			}

			// The same through MarshalText/UnmarshalText ...
			data, err := p.MarshalText()
			if err != nil {
				t.Fatal(err)
			}
			var viaText Path
			if err := viaText.UnmarshalText(data); err != nil {
				t.Errorf("%s\nUnmarshalText(MarshalText(p)) failed for p=%q: %v", zzClause, tc.src, err)
			} else if got3, err3 := viaText.Query(ctx, tc.doc); err3 != nil || !reflect.DeepEqual(got3, tc.want) {
				t.Errorf(`%s "The same holds through MarshalText/UnmarshalText"`+"\np=%q answers %v, after MarshalText/UnmarshalText (%q) it answers %v (err %v)",
					zzClause, tc.src, tc.want, data, got3, err3)
			}

			// ... and Value/Scan.
			val, err := p.Value()
			if err != nil {
				t.Fatal(err)
			}
			var viaScan Path
			if err := viaScan.Scan(val); err != nil {
				t.Errorf("%s\nScan(Value(p)) failed for p=%q: %v", zzClause, tc.src, err)
			} else if got4, err4 := viaScan.Query(ctx, tc.doc); err4 != nil || !reflect.DeepEqual(got4, tc.want) {
				t.Errorf(`%s "The same holds through ... Value/Scan"`+"\np=%q answers %v, after Value/Scan (%q) it answers %v (err %v)",
					zzClause, tc.src, tc.want, val, got4, err4)
			}
		})
	}
}
