// Belongs in directory path/ of theory/sqljson (package path), e.g. as
// path/zz_c02_d2_test.go. Run with:
//
//	go test -vet=off -count=1 -run 'ZZ' ./path
//
// Property C02: "For every path p accepted by Parse, Parse(p.String())
// succeeds and yields a path with the same mode, predicate flag and tree that
// returns the same results as p on every document, and String is a fixed
// point: Parse(p.String()).String() == p.String()." Quantifier: "every
// numeric literal value".
//
// Defect: a numeric (non-integer-token) literal whose value is integral and
// whose magnitude is in [2^63, 1e21) is printed by json.Marshal as a bare
// digit string (for instance 1e19 -> 10000000000000000000). The lexer reads a
// bare digit string as an INT_P token and the parser rejects an INT_P that
// does not fit in an int64, so Parse(p.String()) FAILS (it does not merely
// change the node type, which is the already recorded 4.0 -> 4 defect).
// Negative zero is the other edge of the same printing rule: -0.0 prints as
// "-0", which re-parses as the integer 0 and prints as "0", so String is not a
// fixed point and the sign of zero is lost.
package path

import (
	"context"
	"math"
	"reflect"
	"testing"
)

func TestZZ_C02_D2_LargeIntegralNumericDoesNotReparse(t *testing.T) {
	ctx := context.Background()
	for _, tc := range []struct {
		src  string
		want []any
	}{
		{`1e19`, []any{1e19}},
		{`9223372036854775808.0`, []any{9223372036854775808.0}},
		{`1.5e19`, []any{1.5e19}},
		{`99999999999999991611.5`, []any{99999999999999991611.5}},   // nearest float64 is integral
		{`999999999999999868928.0`, []any{999999999999999868928.0}}, // largest float64 below 1e21
		{`$.a + 1e20`, []any{1e20 + 1}},
		{`$.a ? (@ < 1e19)`, []any{int64(1)}},
		{`(1e19).type()`, []any{"number"}},
		{`-1e19`, []any{-1e19}},
	} {
		t.Run(tc.src, func(t *testing.T) {
			doc := map[string]any{"a": int64(1)}
			p, err := Parse(tc.src)
			if err != nil {
				t.Fatalf("precondition: Parse(%q) must succeed: %v", tc.src, err)
			}
			got, err := p.Query(ctx, doc)
			if err != nil || !reflect.DeepEqual(got, tc.want) {
				t.Fatalf("precondition: p=%q must answer %v, got %v, %v", tc.src, tc.want, got, err)
			}

			text := p.String()
			q, err := Parse(text)
			if err != nil {
				t.Fatalf(`C02: "For every path p accepted by Parse, Parse(p.String()) succeeds"`+
					"\np=%q was accepted by Parse, p.String()=%q, but Parse(p.String()) failed: %v\n"+
					"expected success: the printed text of an accepted path must be accepted again", tc.src, text, err)
			}
			if q.String() != text {
				t.Errorf(`C02: "String is a fixed point": p=%q String()=%q, re-parsed String()=%q`, tc.src, text, q.String())
			}

			var viaText Path
			if err := viaText.UnmarshalText([]byte(text)); err != nil {
				t.Errorf(`C02: "The same holds through MarshalText/UnmarshalText": UnmarshalText(%q) failed: %v`, text, err)
			}
			var viaScan Path
			if err := viaScan.Scan(text); err != nil {
				t.Errorf(`C02: "The same holds through ... Value/Scan": Scan(%q) failed: %v`, text, err)
			}
		})
	}
}

func TestZZ_C02_D2_NegativeZeroNotFixedPoint(t *testing.T) {
	ctx := context.Background()
	for _, src := range []string{`-0.0`, `-0e0`, `-.0`, `$.a * -0.0`} {
		t.Run(src, func(t *testing.T) {
			p, err := Parse(src)
			if err != nil {
				t.Fatalf("precondition: Parse(%q) must succeed: %v", src, err)
			}
			text := p.String()
			q, err := Parse(text)
			if err != nil {
				t.Fatalf(`C02: "Parse(p.String()) succeeds": p=%q String()=%q: %v`, src, text, err)
			}
			if q.String() != text {
				t.Errorf(`C02: "String is a fixed point: Parse(p.String()).String() == p.String()"`+
					"\np=%q: p.String()=%q but Parse(p.String()).String()=%q; expected them to be equal",
					src, text, q.String())
			}
			if src == `-0.0` {
				a, err1 := p.Query(ctx, nil)
				b, err2 := q.Query(ctx, nil)
				if err1 != nil || err2 != nil || len(a) != 1 || len(b) != 1 {
					t.Fatalf("unexpected: %v %v %v %v", a, err1, b, err2)
				}
				fa, ok := a[0].(float64)
				if !ok || !math.Signbit(fa) {
					t.Fatalf("precondition: p=-0.0 answers float64 negative zero, got %#v", a[0])
				}
				fb, ok := b[0].(float64)
				if !ok || !math.Signbit(fb) {
					t.Errorf(`C02: "returns the same results as p on every document": p=%q answers %#v (float64 negative zero), `+
						"the path re-parsed from %q answers %#v (%T); expected the same item", src, a[0], text, b[0], b[0])
				}
			}
		})
	}
}
