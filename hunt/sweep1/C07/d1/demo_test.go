// Place in: path/exec (package exec). Run: go test -vet=off -run 'ZZ' ./path/exec/
package exec

import (
	"context"
	"encoding/json"
	"errors"
	"testing"

	"github.com/theory/sqljson/path/ast"
	"github.com/theory/sqljson/path/parser"
)

func zzD1Parse(t *testing.T, s string) *ast.AST {
	t.Helper()
	p, err := parser.Parse(s)
	if err != nil {
		t.Fatalf("parse %q: %v", s, err)
	}
	return p
}

// Property C07: "In strict mode the same path returns a suppressible
// structural error exactly when some step meets a missing key, a value of the
// wrong kind or an out-of-range subscript - whatever the position of the
// offending element or subscript - except that member accessors below .** skip
// the nodes they do not apply to."
//
// A subscript is not a member accessor, so an out-of-range subscript below .**
// must still be reported. The code swallows it: execSubscript consults
// exec.ignoreStructuralErrors, which .** forces to true for everything below
// it. (The same step on a non-array below .** IS reported, so the code does not
// treat subscripts below .** as skippable either.)
func TestZZ_C07_d1_OutOfRangeSubscriptBelowAnyIsSwallowed(t *testing.T) {
	ctx := context.Background()
	for _, tc := range []struct {
		path, sibling, doc string
	}{
		// every node .** hands on is an array; one of them is too short
		{"strict $.**{1}[1]", "strict $[*][1]", `[[1,2],[3]]`},
		{"strict $.**{1}[1]", "strict $[*][1]", `[[3],[1,2]]`},
		{"strict $.**{1}[0,1]", "strict $[*][0,1]", `[[1,2],[3]]`},
		{"strict $.**{1}[1 to 0]", "strict $[*][1 to 0]", `[[1,2]]`},
		{"strict $.**{1}[last + 1]", "strict $[*][last + 1]", `[[1,2]]`},
		{"strict $.**{1}[-1]", "strict $[*][-1]", `[[1,2]]`},
		{"strict $.**[0]", "strict $[0]", `[]`},
		{"strict $.**.a[1]", "strict $.a[1]", `{"a":[1]}`},
	} {
		var doc any
		if err := json.Unmarshal([]byte(tc.doc), &doc); err != nil {
			t.Fatal(err)
		}
		// the same nodes reached without .** do report the subscript
		_, werr := Query(ctx, zzD1Parse(t, tc.sibling), doc)
		if werr == nil || !errors.Is(werr, ErrVerbose) {
			t.Fatalf("%s on %s: expected the out-of-bounds error, got %v", tc.sibling, tc.doc, werr)
		}
		got, err := Query(ctx, zzD1Parse(t, tc.path), doc)
		switch {
		case err == nil:
			t.Errorf("%s on %s returned %v without error; C07 requires a suppressible structural error: "+
				"strict mode errs \"exactly when some step meets ... an out-of-range subscript - whatever the position of the "+
				"offending element or subscript\", and only \"member accessors below .** skip the nodes they do not apply to\" "+
				"(a subscript is not a member accessor). %s, which applies the same subscript to the same nodes, reports: %v",
				tc.path, tc.doc, got, tc.sibling, werr)
		case !errors.Is(err, ErrVerbose):
			t.Errorf("%s on %s: error %v is not suppressible", tc.path, tc.doc, err)
		}
		// and Exists must answer with the error too, not with true/false
		if ok, eerr := Exists(ctx, zzD1Parse(t, tc.path), doc); eerr == nil {
			t.Errorf("Exists(%s) on %s = %v without error; expected the out-of-range subscript to be reported", tc.path, tc.doc, ok)
		}
	}
}
