// Place in: path/exec (package exec). Run: go test -vet=off -run 'ZZ' ./path/exec/
package exec

import (
	"context"
	"encoding/json"
	"errors"
	"testing"

	"github.com/theory/sqljson/path/ast"
	"github.com/theory/sqljson/path/parser"
)

func zzD2Parse(t *testing.T, s string) *ast.AST {
	t.Helper()
	p, err := parser.Parse(s)
	if err != nil {
		t.Fatalf("parse %q: %v", s, err)
	}
	return p
}

// Property C07: "In strict mode the same path returns a suppressible
// structural error exactly when some step meets a missing key, a value of the
// wrong kind or an out-of-range subscript ... except that member accessors
// below .** skip the nodes they do not apply to."
//
// [*] is the wildcard ARRAY accessor, not a member accessor. Applied below .**
// to a node that is not an array it meets "a value of the wrong kind" and must
// err. The code skips the node silently (execAnyArray consults
// exec.ignoreStructuralErrors), while its sibling [0 to last] / [0] on exactly
// the same node does report "array accessor can only be applied to an array"
// (execArrayIndex does not consult the flag). Whatever reading of the
// exception one prefers, the two array accessors cannot both be right.
func TestZZ_C07_d2_WildcardArrayBelowAnySkipsNonArrays(t *testing.T) {
	ctx := context.Background()
	for _, tc := range []struct {
		wild, index, doc string
	}{
		{"strict $.**{1}[*]", "strict $.**{1}[0 to last]", `[[1],2]`},      // offending node last
		{"strict $.**{1}[*]", "strict $.**{1}[0 to last]", `[2,[1]]`},      // offending node first
		{"strict $.**{1}[*]", "strict $.**{1}[0 to last]", `[[1],{},[3]]`}, // offending node in the middle
		{"strict $.**[*]", "strict $.**[0 to last]", `[[1]]`},              // the scalar leaf 1
		{"strict $.**{0}[*]", "strict $.**{0}[0]", `{"a":1}`},              // the root itself
		{"strict $.**.a[*]", "strict $.**.a[0]", `{"a":1}`},                // further down the chain
	} {
		var doc any
		if err := json.Unmarshal([]byte(tc.doc), &doc); err != nil {
			t.Fatal(err)
		}
		_, ierr := Query(ctx, zzD2Parse(t, tc.index), doc)
		got, werr := Query(ctx, zzD2Parse(t, tc.wild), doc)
		if werr == nil {
			t.Errorf("%s on %s returned %v without error; C07 requires a suppressible structural error: strict mode errs "+
				"\"exactly when some step meets ... a value of the wrong kind\", and only \"member accessors below .** skip the "+
				"nodes they do not apply to\" ([*] is an array accessor). The sibling %s on the same document gives: %v",
				tc.wild, tc.doc, got, tc.index, ierr)
		} else if !errors.Is(werr, ErrVerbose) {
			t.Errorf("%s on %s: error %v is not suppressible", tc.wild, tc.doc, werr)
		}
		if (werr == nil) != (ierr == nil) {
			t.Errorf("sibling array accessors disagree below .** on %s: %s -> err=%v, %s -> err=%v; "+
				"both meet the same non-array node, so either both err or both skip it",
				tc.doc, tc.wild, werr, tc.index, ierr)
		}
	}
}
