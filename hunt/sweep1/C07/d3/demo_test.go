// Place in: path/exec (package exec). Run: go test -vet=off -run 'ZZ' ./path/exec/
package exec

import (
	"context"
	"encoding/json"
	"testing"

	"github.com/theory/sqljson/path/ast"
	"github.com/theory/sqljson/path/parser"
)

func zzD3Parse(t *testing.T, s string) *ast.AST {
	t.Helper()
	p, err := parser.Parse(s)
	if err != nil {
		t.Fatalf("parse %q: %v", s, err)
	}
	return p
}

// Property C07: "In lax mode a path built from accessors (.key, .*, [*], .**,
// and [i], [i to j] with literal or last-relative bounds) and filters over
// them never returns an error: a step applied to a value of the wrong shape
// yields no items ... and subscripts treat a non-array as a one-element array."
//
// A literal (or last-relative) bound whose truncated value does not fit in 32
// bits is just a subscript that is out of range for every array; in lax mode it
// must select nothing. Instead getJSONInt32 fails with "jsonpath array
// subscript is out of integer range" and execArrayIndex returns that error in
// lax mode too. $[2147483647] (one less) correctly yields no items.
func TestZZ_C07_d3_LaxSubscriptBeyondInt32Errs(t *testing.T) {
	ctx := context.Background()
	docs := []string{`[10,11,12]`, `[]`, `7`, `{"a":1}`}
	for _, tc := range []struct {
		path string
		want []string // expected result per document, JSON
	}{
		{"lax $[2147483647]", []string{`[]`, `[]`, `[]`, `[]`}}, // control: passes
		{"lax $[2147483648]", []string{`[]`, `[]`, `[]`, `[]`}},
		{"lax $[-2147483649]", []string{`[]`, `[]`, `[]`, `[]`}},
		{"lax $[1e10]", []string{`[]`, `[]`, `[]`, `[]`}},
		{"lax $[0 to 2147483648]", []string{`[10,11,12]`, `[]`, `[7]`, `[{"a":1}]`}},
		{"lax $[-2147483649 to 0]", []string{`[10]`, `[]`, `[7]`, `[{"a":1}]`}},
		{"lax $[0, 2147483648]", []string{`[10]`, `[]`, `[7]`, `[{"a":1}]`}},
		// last-relative: errs on [10,11,12] (last=2) but not on [] / 7 / {"a":1}: data dependent
		{"lax $[last + 2147483647]", []string{`[]`, `[]`, `[]`, `[]`}},
		{"lax $[last - 2147483648]", []string{`[]`, `[]`, `[]`, `[]`}},
		// below a key and inside the chain
		{"lax $.a[2147483648]", []string{`[]`, `[]`, `[]`, `[]`}},
	} {
		p := zzD3Parse(t, tc.path)
		for i, d := range docs {
			var doc any
			if err := json.Unmarshal([]byte(d), &doc); err != nil {
				t.Fatal(err)
			}
			got, err := Query(ctx, p, doc)
			if err != nil {
				t.Errorf("%s on %s returned error %q; C07: \"In lax mode a path built from accessors (... [i], [i to j] with "+
					"literal or last-relative bounds) ... never returns an error\"; expected %s (a bound no array index can reach is merely out of range, which lax mode absorbs)",
					tc.path, d, err, tc.want[i])
				continue
			}
			b, _ := json.Marshal(got)
			if len(got) == 0 {
				b = []byte("[]")
			}
			if string(b) != tc.want[i] {
				t.Errorf("%s on %s = %s, want %s", tc.path, d, b, tc.want[i])
			}
		}
	}
	// Exists short-circuits on the first subscript and never sees the bad one,
	// so the two entry points disagree on whether the query is an error.
	p := zzD3Parse(t, "lax $[0, 2147483648]")
	doc := []any{int64(1)}
	ok, eerr := Exists(ctx, p, doc)
	_, qerr := Query(ctx, p, doc)
	if (eerr == nil) != (qerr == nil) {
		t.Errorf("lax $[0, 2147483648] on [1]: Exists = %v, err %v but Query err %v; in lax mode neither should err", ok, eerr, qerr)
	}
}
