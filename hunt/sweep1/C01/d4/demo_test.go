// Place this file in path/exec (package exec) and run:
//
//	go test -vet=off -count=1 -run 'ZZ' ./path/exec/
//
// Defect: .decimal(precision, scale) rounds by multiplying with and dividing
// by math.Pow10(scale) in binary floating point. For scales whose power of
// ten is not exactly representable (negative scales such as -5 and -9, and
// large positive ones) the division re-introduces an error, so
//   - 999999.decimal(10,-5) is 999999.9999999999 instead of 1000000
//     (not even a multiple of 10^5), and the precision check then lets
//     999999.decimal(1,-5) through although 1000000 needs 2 digits at scale -5;
//   - a value that already has at most `scale` fraction digits is altered:
//     35642.8.decimal(60,11) is 35642.80000000001.
// In the negative-scale cases input and expected result are integers that
// int64/float64 represent exactly; in the positive-scale cases the expected
// result is the input float64 itself. So none of this is the documented
// float64 range/precision limit: the error is made by the rounding code.
package exec

import (
	"context"
	"encoding/json"
	"errors"
	"math/big"
	"testing"

	"github.com/theory/sqljson/path/parser"
)

func zzDecimalRat(v any) *big.Rat {
	r := new(big.Rat)
	switch v := v.(type) {
	case int64:
		return r.SetInt64(v)
	case float64:
		return r.SetFloat64(v)
	case json.Number:
		r.SetString(string(v))
		return r
	}
	return nil
}

func TestZZDecimalScaleArithmetic(t *testing.T) {
	const clause = `C01: "each ... item method contributes the items the rules give it and nothing else" ` +
		`(.decimal(precision, scale): "Rounded decimal value converted from a JSON number or string")`

	for _, tc := range []struct {
		path string
		doc  any
		want any // float64/int64 value expected, or nil for an ErrVerbose error
	}{
		// negative scale: round to a multiple of 10^-scale
		{`$.decimal(10,-5)`, float64(999999), float64(1000000)},
		{`$.decimal(10,-5)`, json.Number("999999"), float64(1000000)},
		{`$.decimal(10,-5)`, float64(250000), float64(300000)},
		{`$.decimal(12,-9)`, float64(1327997430), float64(1000000000)},
		{`$.decimal(12,-9)`, int64(499877696799), float64(500000000000)},
		// 999999 rounds to 1000000 = 10 x 10^5: two digits, precision 1 is not enough
		{`$.decimal(1,-5)`, float64(999999), nil},
		// positive scale: nothing to round, the value must come back unchanged
		{`$.decimal(60,11)`, float64(35642.8), float64(35642.8)},
		{`$.decimal(60,16)`, float64(0.413521), float64(0.413521)},
		{`$.decimal(60,25)`, float64(1e-10), float64(1e-10)},
		// controls that already work
		{`$.decimal(10,-3)`, float64(999999), float64(1000000)},
		{`$.decimal(10,2)`, float64(35642.8), float64(35642.8)},
		{`$.decimal(1,-3)`, float64(999999), nil},
	} {
		ast, err := parser.Parse(tc.path)
		if err != nil {
			t.Fatalf("%v: %v", tc.path, err)
		}
		got, err := Query(context.Background(), ast, tc.doc)

		if tc.want == nil {
			if !errors.Is(err, ErrVerbose) {
				t.Errorf("%v on %v: got %v, %v; want an ErrVerbose error: the rounded value does not fit "+
					"the precision. %v", tc.path, tc.doc, got, err, clause)
			}
			continue
		}
		if err != nil {
			t.Errorf("%v on %v: unexpected error %v", tc.path, tc.doc, err)
			continue
		}
		if len(got) != 1 || zzDecimalRat(got[0]) == nil || zzDecimalRat(got[0]).Cmp(zzDecimalRat(tc.want)) != 0 {
			t.Errorf("%v on %#v: got %v, want exactly %v (an exactly representable integer "+
				"for the negative scales, the unchanged input for the positive ones). %v", tc.path, tc.doc, got, tc.want, clause)
		}
	}
}
