// Place this file in path/exec (package exec) and run:
//
//	go test -vet=off -count=1 -run 'ZZ' ./path/exec/
//
// Defect: in strict mode the steps that follow `.**` must skip items of the
// wrong kind (this is what makes `strict $.**.HR` usable, see path/README.md).
// `.key`, `.*` and `[*]` do; the array subscript `[n]` raises an error instead
// and `.size()` answers 1 for items that are not arrays.
package exec

import (
	"context"
	"encoding/json"
	"reflect"
	"sort"
	"testing"

	"github.com/theory/sqljson/path/parser"
)

func zzQuery(t *testing.T, path, doc string, opt ...Option) ([]string, error) {
	t.Helper()
	ast, err := parser.Parse(path)
	if err != nil {
		t.Fatalf("%v: %v", path, err)
	}
	var value any
	if err := json.Unmarshal([]byte(doc), &value); err != nil {
		t.Fatal(err)
	}
	res, err := Query(context.Background(), ast, value, opt...)
	if err != nil {
		return nil, err
	}
	// Render each item as JSON and sort: the order of object members is open.
	out := make([]string, len(res))
	for i, v := range res {
		b, err := json.Marshal(v)
		if err != nil {
			t.Fatal(err)
		}
		out[i] = string(b)
	}
	sort.Strings(out)
	return out, nil
}

const zzClause = `C01: "Query returns exactly the item sequence ... and the error class that the documented ` +
	`SQL/JSON path evaluation rules prescribe for the path's mode"; "each accessor, wildcard, subscript ... ` +
	`and item method contributes the items the rules give it and nothing else"`

// The subscript accessor after .** in strict mode.
func TestZZStrictRecursiveDescentThenSubscript(t *testing.T) {
	const doc = `{"a": [10, 20], "b": {"c": [30]}}`

	// Sibling accessors behave as documented: items of the wrong kind are skipped.
	for path, want := range map[string][]string{
		`strict $.**.c`:  {`[30]`},
		`strict $.**[*]`: {`10`, `20`, `30`},
	} {
		got, err := zzQuery(t, path, doc)
		if err != nil || !reflect.DeepEqual(got, want) {
			t.Fatalf("precondition: %v: got %v, %v; want %v", path, got, err, want)
		}
	}

	for path, want := range map[string][]string{
		`strict $.**[0]`:      {`10`, `30`},
		`strict $.**[last]`:   {`20`, `30`},
		`strict $.**[0 to 0]`: {`10`, `30`},
	} {
		got, err := zzQuery(t, path, doc)
		if err != nil {
			t.Errorf("%v on %v: got error %q, want %v. After .** structural errors are ignored: "+
				"the objects and scalars that .** also selects are skipped by the subscript exactly as "+
				"they are by [*], .key and .* (strict $.**[*] answers [10,20,30] on the same document). %v",
				path, doc, err, want, zzClause)
			continue
		}
		if !reflect.DeepEqual(got, want) {
			t.Errorf("%v on %v: got %v, want %v. %v", path, doc, got, want, zzClause)
		}
	}

	// With WithSilent the error is swallowed and the query answers nothing at all.
	if got, err := zzQuery(t, `strict $.**[0]`, doc, WithSilent()); err != nil || !reflect.DeepEqual(got, []string{`10`, `30`}) {
		t.Errorf("strict $.**[0] on %v WithSilent: got %v, %v; want [10 30]. %v", doc, got, err, zzClause)
	}
}

// The .size() method after .** in strict mode.
func TestZZStrictRecursiveDescentThenSize(t *testing.T) {
	const doc = `{"a": [10, 20], "b": {"c": [30]}}`
	// .** selects: the root object, [10,20], 10, 20, {"c":[30]}, [30], 30.
	// Only the two arrays have a size in strict mode (no automatic wrapping).
	want := []string{`1`, `2`}
	got, err := zzQuery(t, `strict $.**.size()`, doc)
	if err != nil {
		t.Fatalf("unexpected error %v", err)
	}
	if !reflect.DeepEqual(got, want) {
		t.Errorf("strict $.**.size() on %v: got %v, want %v. In strict mode nothing is wrapped into an "+
			"array, so a non-array has no size: outside .** the code itself says so "+
			"(strict $.size() on 1 is an error); after .** the structural error is ignored and the item "+
			"contributes nothing - it must not contribute the lax-mode answer 1. %v",
			doc, got, want, zzClause)
	}
}
