// Place this file in path/exec (package exec) and run:
//
//	go test -vet=off -count=1 -run 'ZZ' ./path/exec/
//
// Defect: the `/` operator truncates when both operands are integers
// (integer literals, json.Number integers, int64 items such as .size() or
// last), so the same JSON document yields 3.5 when decoded to float64 and 3
// when decoded with json.Decoder.UseNumber, and `7 / 2` yields 3.
package exec

import (
	"bytes"
	"context"
	"encoding/json"
	"math/big"
	"testing"

	"github.com/theory/sqljson/path/parser"
)

// zzRat converts a numeric result item to an exact rational.
func zzRat(t *testing.T, v any) *big.Rat {
	t.Helper()
	r := new(big.Rat)
	switch v := v.(type) {
	case int64:
		return r.SetInt64(v)
	case float64:
		return r.SetFloat64(v)
	case json.Number:
		if _, ok := r.SetString(string(v)); ok {
			return r
		}
	}
	t.Fatalf("result item %#v is not a number", v)
	return nil
}

func TestZZIntegerDivisionTruncates(t *testing.T) {
	const clause = `C01: "each ... arithmetic operator ... contributes the items the rules give it and nothing else", ` +
		`"for all ... JSON documents decoded either to float64 or to json.Number"`

	for _, tc := range []struct {
		path, doc string
		num, den  int64 // expected quotient num/den (SQL/JSON numeric division)
	}{
		{`7 / 2`, `null`, 7, 2},
		{`-7 / 2`, `null`, -7, 2},
		{`$ / 2`, `7`, 7, 2},
		{`$[0] / $[1]`, `[1, 4]`, 1, 4},
		{`$.size() / 2`, `[1, 2, 3]`, 3, 2},
		{`$[*] ? (@ / 2 == 3.5)`, `[7]`, 7, 1}, // the filter must keep 7
		{`1 / 3 * 3`, `null`, 1, 1},
	} {
		ast, err := parser.Parse(tc.path)
		if err != nil {
			t.Fatalf("%v: %v", tc.path, err)
		}
		want := big.NewRat(tc.num, tc.den)

		for _, useNumber := range []bool{false, true} {
			dec := json.NewDecoder(bytes.NewReader([]byte(tc.doc)))
			if useNumber {
				dec.UseNumber()
			}
			var doc any
			if err := dec.Decode(&doc); err != nil {
				t.Fatal(err)
			}

			got, err := Query(context.Background(), ast, doc)
			if err != nil {
				t.Errorf("%v on %v (UseNumber=%v): unexpected error %v", tc.path, tc.doc, useNumber, err)
				continue
			}
			if len(got) != 1 {
				t.Errorf("%v on %v (UseNumber=%v): got %v, want the single item %v. %v",
					tc.path, tc.doc, useNumber, got, want.FloatString(4), clause)
				continue
			}
			// Allow for float64 rounding only (1e-12 relative).
			diff := new(big.Rat).Sub(zzRat(t, got[0]), want)
			if diff.Abs(diff).Cmp(big.NewRat(1, 1_000_000_000_000)) > 0 {
				t.Errorf("%v on %v (UseNumber=%v): got %v, want %v: number / number is numeric "+
					"division (7 / 2 is 3.5), it does not truncate to an integer, and the result must not "+
					"depend on whether the document was decoded to float64 or json.Number. %v",
					tc.path, tc.doc, useNumber, got[0], want.FloatString(4), clause)
			}
		}
	}
}
