// Place this file in path/exec (package exec) and run:
//
//	go test -vet=off -count=1 -run 'ZZ' ./path/exec/
//
// Defect: .string() applied to a number that was decoded to json.Number
// returns the spelling of the JSON literal ("1e3", "1E+2", "12e-1") instead of
// the string value of the number ("1000", "100", "1.2"), so the same document
// answers differently when decoded to float64 and to json.Number, and string
// predicates on the result (==, starts with, like_regex) flip.
package exec

import (
	"bytes"
	"context"
	"encoding/json"
	"reflect"
	"testing"

	"github.com/theory/sqljson/path/parser"
)

func TestZZStringOfJSONNumber(t *testing.T) {
	const clause = `C01: "each ... item method contributes the items the rules give it and nothing else", ` +
		`for "all JSON documents decoded either to float64 or to json.Number"`

	for _, tc := range []struct {
		path, doc string
		want      []any
	}{
		{`$.string()`, `1e3`, []any{"1000"}},
		{`$.string()`, `1E+2`, []any{"100"}},
		{`$.string()`, `12e-1`, []any{"1.2"}},
		{`$.string()`, `-5e0`, []any{"-5"}},
		{`$[*].string()`, `[1e3, 1000]`, []any{"1000", "1000"}},
		{`$[*] ? (@.string() == "1000")`, `[1e3]`, []any{"NUM"}},
		{`$[*] ? (@.string() like_regex "^[0-9]+$")`, `[1e3]`, []any{"NUM"}},
		{`$.string().bigint()`, `1e3`, []any{int64(1000)}},
	} {
		ast, err := parser.Parse(tc.path)
		if err != nil {
			t.Fatalf("%v: %v", tc.path, err)
		}

		for _, useNumber := range []bool{false, true} {
			dec := json.NewDecoder(bytes.NewReader([]byte(tc.doc)))
			if useNumber {
				dec.UseNumber()
			}
			var doc any
			if err := dec.Decode(&doc); err != nil {
				t.Fatal(err)
			}

			got, err := Query(context.Background(), ast, doc)
			if err != nil {
				t.Errorf("%v on %v (UseNumber=%v): got error %q, want %v. %v",
					tc.path, tc.doc, useNumber, err, tc.want, clause)
				continue
			}
			// "NUM" stands for the selected number itself, in either representation.
			for i, v := range got {
				switch v.(type) {
				case float64, json.Number:
					got[i] = "NUM"
				}
			}
			if !reflect.DeepEqual(got, tc.want) {
				t.Errorf("%v on %v (UseNumber=%v): got %#v, want %#v: .string() converts the number "+
					"(1e3 is the number 1000) to its string value; how the literal was spelled in the JSON "+
					"text is not part of the SQL/JSON item, and the float64 decoding of the same document "+
					"answers \"1000\". %v",
					tc.path, tc.doc, useNumber, got, tc.want, clause)
			}
		}
	}
}
