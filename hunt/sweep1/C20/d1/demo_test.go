// Belongs in directory path/exec (package exec) of theory/sqljson.
// Run with: go test -vet=off -count=1 -run 'ZZ' ./path/exec/
//
// Property C20: "If the context is done before or at any point during
// execution, every entry point returns an error wrapping both
// exec.ErrExecution and the context's error, with no items, after a bounded
// number of further evaluation steps. A cancellation is never converted into
// a normal outcome".
//
// Defect: executePredicate (path/exec/predicate.go) compares every item of
// the left operand with every item of the right operand in a double loop that
// never looks at the context, and nothing polls the context after the loop
// when the predicate is the last thing the path does. A context that becomes
// done once the operands are collected is therefore never noticed: the
// |L| x |R| comparisons all run and the entry point returns a normal result
// with a nil error.
package exec

import (
	"context"
	"errors"
	"fmt"
	"testing"

	"github.com/theory/sqljson/path/parser"
)

// zzD1Ctx becomes done immediately after the executor's flipAfter-th poll of
// Done() has returned "not done", exactly as if another goroutine had called
// cancel() at that moment. Every ctx.Value() lookup made while the context is
// done is counted: the datetime comparison callbacks look the time zone up in
// the context, so this counts comparisons that ran after cancellation.
type zzD1Ctx struct {
	context.Context
	polls, flipAfter int
	done             bool
	stepsAfterDone   int
	err              error
}

func (c *zzD1Ctx) Done() <-chan struct{} {
	c.polls++
	if c.done {
		ch := make(chan struct{})
		close(ch)
		return ch
	}
	if c.polls == c.flipAfter {
		c.done = true // takes effect for everything after this poll
	}
	return nil
}

func (c *zzD1Ctx) Err() error {
	if c.done {
		return c.err
	}
	return nil
}

func (c *zzD1Ctx) Value(key any) any {
	if c.done {
		c.stepsAfterDone++
	}
	return c.Context.Value(key)
}

func TestZZD1PredicatePairLoopIgnoresCancellation(t *testing.T) {
	// Every date in "a" is later than every timestamptz in "b", so `<` is
	// false for every pair and the lax-mode loop cannot stop early.
	const path = `$.a[*].datetime() < $.b[*].datetime()`
	ast, err := parser.Parse(path)
	if err != nil {
		t.Fatal(err)
	}

	mkDoc := func(n int) any {
		a := make([]any, n)
		b := make([]any, n)
		for i := range a {
			a[i] = fmt.Sprintf("2030-01-%02d", i%28+1)
			b[i] = fmt.Sprintf("2020-01-%02dT10:00:00+00", i%28+1)
		}
		return map[string]any{"a": a, "b": b}
	}

	type combo struct {
		n      int
		cerr   error
		silent bool
	}
	prevSteps := 0
	for _, c := range []combo{
		{10, context.Canceled, false},
		{100, context.Canceled, false}, // same run, 10x the document: 100x the steps
		{100, context.DeadlineExceeded, false},
		{100, context.Canceled, true},
		{100, context.DeadlineExceeded, true},
	} {
		n, cerr, silent := c.n, c.cerr, c.silent
		doc := mkDoc(n)
		opts := []Option{WithTZ()}
		if silent {
			opts = append(opts, WithSilent())
		}

		// The executor polls once per executed path node. Collecting the
		// operands executes: the `<` node, `$`, `.a`, `[*]`, n times
		// `.datetime()`, then `$`, `.b`, `[*]`, n times `.datetime()`:
		// 2n+7 polls. The (2n+7)-th poll is the one before the last string of
		// "b" is converted; after it come only that conversion and the n*n
		// comparisons.
		lastOperandPoll := 2*n + 7
		cal := &zzD1Ctx{Context: context.Background(), flipAfter: -1}
		res, err := Query(cal, ast, doc, opts...)
		if err != nil || len(res) != 1 || res[0] != false {
			t.Fatalf("uncancelled run: got (%v, %v), want ([false], nil)", res, err)
		}
		if cal.polls < lastOperandPoll {
			t.Fatalf("uncancelled run polled %d times, expected at least %d", cal.polls, lastOperandPoll)
		}

		// The context becomes done right after that poll, i.e. during
		// execution, before the first pair is compared.
		ctx := &zzD1Ctx{Context: context.Background(), flipAfter: lastOperandPoll, err: cerr}
		res, err = Query(ctx, ast, doc, opts...)
		if ctx.Err() == nil {
			t.Fatalf("test bug: context never became done")
		}

		if err == nil || !errors.Is(err, ErrExecution) || !errors.Is(err, cerr) || res != nil {
			t.Errorf("Query(%q) on %d x %d items, silent=%v: the context became done (%v) right after poll %d (the run polls %d times), "+
				"i.e. during execution and before the first of the %d comparisons; the comparisons then made %d "+
				"time zone lookups in the done context and Query returned (%v, %v); C20 requires \"an error "+
				"wrapping both exec.ErrExecution and the context's error, with no items, after a bounded number "+
				"of further evaluation steps\" and that \"a cancellation is never converted into a normal outcome\"",
				path, n, n, silent, cerr, lastOperandPoll, cal.polls, n*n, ctx.stepsAfterDone, res, err)
		}
		if prevSteps > 0 && ctx.stepsAfterDone > 2*prevSteps {
			t.Errorf("the work done after the context was done grew from %d to %d context lookups with the document "+
				"(n=%d): not \"a bounded number of further evaluation steps\"",
				prevSteps, ctx.stepsAfterDone, n)
		}
		prevSteps = ctx.stepsAfterDone
	}

	// The other entry points take the same route.
	doc := mkDoc(50)
	ctx := &zzD1Ctx{Context: context.Background(), flipAfter: 2*50 + 7, err: context.Canceled}
	got, err := Match(ctx, ast, doc, WithTZ())
	if err == nil || !errors.Is(err, context.Canceled) {
		t.Errorf("Match: context done during execution, got (%v, %v) after %d lookups by comparisons; want an error wrapping "+
			"exec.ErrExecution and context.Canceled (C20: not \"a true or false\")", got, err, ctx.stepsAfterDone)
	}
	ctx = &zzD1Ctx{Context: context.Background(), flipAfter: 2*50 + 7, err: context.Canceled}
	first, err := First(ctx, ast, doc, WithTZ())
	if err == nil || !errors.Is(err, context.Canceled) {
		t.Errorf("First: context done during execution, got (%v, %v) after %d lookups by comparisons; want an error "+
			"wrapping exec.ErrExecution and context.Canceled", first, err, ctx.stepsAfterDone)
	}
}
