// Belongs in directory path/exec (package exec) of theory/sqljson.
// Run with: go test -vet=off -count=1 -run 'ZZ' ./path/exec/
//
// Property C20: "If the context is done before or at any point during
// execution, every entry point returns an error wrapping both
// exec.ErrExecution and the context's error, with no items, after a bounded
// number of further evaluation steps. A cancellation is never converted into
// a normal outcome - not an empty or partial result ..."
//
// Defect: the only poll of the context is at the top of
// executeItemOptUnwrapTarget, i.e. once per executed path *node*. When a
// wildcard step (.**, .**{n}, [*], .*) is the last step of the path,
// executeAnyItem (path/exec/op.go) is called with node == nil and walks the
// whole document - for .** recursively, every level - appending items without
// ever looking at the context. `$.**` polls exactly twice whatever the size of
// the document, so a context that becomes done while the document is being
// walked is ignored and the complete result comes back with a nil error.
package exec

import (
	"context"
	"errors"
	"testing"

	"github.com/theory/sqljson/path/parser"
)

// zzD2Ctx becomes done immediately after the executor's flipAfter-th poll of
// Done() has returned "not done", exactly as if another goroutine had called
// cancel() at that moment.
type zzD2Ctx struct {
	context.Context
	polls, flipAfter int
	done             bool
	err              error
}

func (c *zzD2Ctx) Done() <-chan struct{} {
	c.polls++
	if c.done {
		ch := make(chan struct{})
		close(ch)
		return ch
	}
	if c.polls == c.flipAfter {
		c.done = true // takes effect for everything after this poll
	}
	return nil
}

func (c *zzD2Ctx) Err() error {
	if c.done {
		return c.err
	}
	return nil
}

func zzD2Doc(rows, cols int) any {
	doc := make([]any, rows)
	for i := range doc {
		row := make([]any, cols)
		for j := range row {
			row[j] = map[string]any{"v": int64(j)}
		}
		doc[i] = row
	}
	return doc
}

func TestZZD2TerminalWildcardWalkIgnoresCancellation(t *testing.T) {
	for _, tc := range []struct {
		path  string
		items func(rows, cols int) int
	}{
		{`$.**`, func(r, c int) int { return 1 + r + r*c + r*c }},
		{`strict $.**`, func(r, c int) int { return 1 + r + r*c + r*c }},
		{`$.**{2 to last}`, func(r, c int) int { return r*c + r*c }},
		{`$.**{3}`, func(r, c int) int { return r * c }},
	} {
		ast, err := parser.Parse(tc.path)
		if err != nil {
			t.Fatal(err)
		}
		for _, size := range [][2]int{{3, 3}, {100, 100}} {
			rows, cols := size[0], size[1]
			doc := zzD2Doc(rows, cols)
			want := tc.items(rows, cols)

			for _, silent := range []bool{false, true} {
				var opts []Option
				if silent {
					opts = append(opts, WithSilent())
				}

				cal := &zzD2Ctx{Context: context.Background(), flipAfter: -1}
				res, err := Query(cal, ast, doc, opts...)
				if err != nil || len(res) != want {
					t.Fatalf("%s uncancelled: got %d items, %v; want %d items", tc.path, len(res), err, want)
				}

				// Done right after the second poll: poll 1 precedes `$`, poll 2
				// precedes the .** node, so this is before any item is visited.
				for _, cerr := range []error{context.Canceled, context.DeadlineExceeded} {
					ctx := &zzD2Ctx{Context: context.Background(), flipAfter: 2, err: cerr}
					res, err = Query(ctx, ast, doc, opts...)
					if ctx.Err() == nil {
						t.Fatal("test bug: context never became done")
					}
					if err == nil || !errors.Is(err, ErrExecution) || !errors.Is(err, cerr) || res != nil {
						t.Errorf("Query(%q) on a %dx%d document, silent=%v: the context became done (%v) right after "+
							"poll 2 (the one made before the .** step starts), before the first item was visited, and the "+
							"executor never polled again "+
							"(%d polls in total for a result of %d items): got (%d items, err=%v); C20 requires "+
							"\"an error wrapping both exec.ErrExecution and the context's error, with no items, after "+
							"a bounded number of further evaluation steps\" - \"not an empty or partial result\", "+
							"let alone the complete one",
							tc.path, rows, cols, silent, cerr, ctx.polls, want, len(res), err)
					}

					first, err := First(ctx, ast, doc, opts...) // ctx is done before the call now
					if err == nil || first != nil {
						t.Errorf("test bug: First with a context done before the call: (%v, %v)", first, err)
					}
				}
			}
		}
	}
}
