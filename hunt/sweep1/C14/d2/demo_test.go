// Belongs in: path/exec (package exec) of the theory/sqljson worktree.
// Run with:   go test -vet=off -count=1 -run 'ZZ' ./path/exec/
//
// Defect: in a STRICT path, an array subscript that comes (anywhere) after a
// .** step does not raise the out-of-bounds error; out-of-range positions are
// silently clipped as in lax mode. execSubscript (path/exec/array.go) decides
// on exec.ignoreStructuralErrors, which execAnyNode / executeAnyItem
// (path/exec/op.go) force to true for everything that follows .**, and not on
// the mode of the path.
package exec

import (
	"context"
	"errors"
	"testing"

	"github.com/theory/sqljson/path/parser"
)

func TestZZ_C14_d2_StrictSubscriptAfterAnyPathIsClipped(t *testing.T) {
	ctx := context.Background()
	doc := map[string]any{"a": []any{"e0"}}

	// Control: the plain strict path raises the out-of-bounds error.
	p, err := parser.Parse("strict $.a[1]")
	if err != nil {
		t.Fatal(err)
	}
	if _, gerr := Query(ctx, p, doc); gerr == nil || !errors.Is(gerr, ErrVerbose) {
		t.Fatalf("control: strict $.a[1] should raise out of bounds, got err %v", gerr)
	}

	for _, tc := range []struct {
		path string
		doc  any
	}{
		// .**{0} selects exactly the item itself, so these paths address the
		// very same array with the very same subscript as the control.
		{"strict $.**{0}.a[1]", doc},
		{"strict $.**{0}.a[-1]", doc},
		{"strict $.**{0}.a[0 to 1]", doc},
		{"strict $.**{0}.a[1 to 0]", doc},
		{"strict $.**{0}.a[last + 1]", doc},
		// every item visited by .** is an array, positions are out of bounds
		{"strict $.**[0]", []any{}},
		{"strict $.**[5]", []any{[]any{}}},
		// the relaxation leaks arbitrarily far down the chain
		{"strict $.**{0}.a[0 to 0][3]", map[string]any{"a": []any{[]any{"x"}}}},
	} {
		p, err := parser.Parse(tc.path)
		if err != nil {
			t.Fatal(err)
		}
		got, gerr := Query(ctx, p, tc.doc)
		if gerr == nil || !errors.Is(gerr, ErrVerbose) {
			t.Errorf("%s on %v: got %v, err %v; want the out-of-bounds error.\n"+
				"  C14: \"In lax mode positions outside 0..n-1 are clipped away ...; in strict mode they raise the "+
				"out-of-bounds error\". The path is strict and the position is outside 0..n-1, "+
				"yet it is clipped away without an error.", tc.path, tc.doc, got, gerr)
		}
		ex, eerr := Exists(ctx, p, tc.doc)
		if eerr == nil {
			t.Errorf("%s on %v: Exists = %v, err <nil>; want the out-of-bounds error (strict mode)", tc.path, tc.doc, ex)
		}
	}
}
