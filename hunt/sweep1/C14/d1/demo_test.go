// Belongs in: path/exec (package exec) of the theory/sqljson worktree.
// Run with:   go test -vet=off -count=1 -run 'ZZ' ./path/exec/
//
// Defect: a subscript given as a json.Number is converted through float64
// (getJSONInt32, path/exec/util.go), so a fractional value with more than
// ~16 significant digits is ROUNDED to the nearest double before it is
// truncated. The position selected is then trunc(round(e)) and not trunc(e).
package exec

import (
	"context"
	"encoding/json"
	"math/big"
	"reflect"
	"testing"

	"github.com/theory/sqljson/path/parser"
)

func TestZZ_C14_d1_JSONNumberSubscriptIsRoundedNotTruncated(t *testing.T) {
	ctx := context.Background()
	arr := []any{"e0", "e1", "e2", "e3"}

	// oracle: exact truncation with math/big
	trunc := func(s string) int64 {
		r, ok := new(big.Rat).SetString(s)
		if !ok {
			t.Fatalf("bad number %q", s)
		}
		return new(big.Int).Quo(r.Num(), r.Denom()).Int64() // toward zero
	}

	for _, tc := range []struct {
		mode string
		num  string
	}{
		{"lax", "0.99999999999999999999"},        // trunc = 0, code picks 1
		{"lax", "2.99999999999999999999"},        // trunc = 2, code picks 3
		{"strict", "3.99999999999999999999"},     // trunc = 3 (in bounds), code raises out of bounds
		{"lax", "-0.99999999999999999999"},       // trunc = 0, code clips position -1 away
		{"strict", "-0.99999999999999999999"},    // trunc = 0 (in bounds), code raises out of bounds
		{"lax", "2147483647.99999999999999999"},  // trunc = MaxInt32: within int32, lax => clipped, no error
		{"lax", "-2147483648.99999999999999999"}, // trunc = MinInt32: within int32, lax => clipped, no error
		{"lax", "1.00000000000000000001"},        // control: passes
		{"lax", "0.9999999999999999"},            // control (16 digits): passes
	} {
		p, err := parser.Parse(tc.mode + " $[$v]")
		if err != nil {
			t.Fatal(err)
		}
		pos := trunc(tc.num)
		want := []any{}
		if pos >= 0 && pos < int64(len(arr)) {
			want = append(want, arr[pos])
		}
		// every value above truncates to a position that is either inside
		// 0..3 or (last two) inside int32 and clipped in lax mode: no case
		// may raise an error.
		got, gerr := Query(ctx, p, arr, WithVars(Vars{"v": json.Number(tc.num)}))
		if got == nil {
			got = []any{}
		}
		if gerr != nil || !reflect.DeepEqual(got, want) {
			t.Errorf("%s $[$v] with $v = json.Number(%s) on %v:\n  got  %v, err %v\n  want %v, err <nil>\n"+
				"  C14: \"a[e1, ...] returns, for each subscript in order, the elements at position trunc(e)\"; "+
				"trunc(%s) = %d. A subscript is an error only when it \"is not a single number within int32 range\"; "+
				"in lax mode \"positions outside 0..n-1 are clipped away\".",
				tc.mode, tc.num, arr, got, gerr, want, tc.num, pos)
		}
	}

	// Same thing when the json.Number comes from the document (json.Decoder.UseNumber).
	doc := map[string]any{"a": arr, "i": json.Number("0.99999999999999999999")}
	p, _ := parser.Parse("$.a[$.i]")
	got, gerr := Query(ctx, p, doc)
	if gerr != nil || !reflect.DeepEqual(got, []any{"e0"}) {
		t.Errorf("$.a[$.i] with i = 0.99999999999999999999: got %v, err %v; want [e0] (position trunc(e) = 0)", got, gerr)
	}
}
