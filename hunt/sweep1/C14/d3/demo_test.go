// Belongs in: path/exec (package exec) of the theory/sqljson worktree.
// Run with:   go test -vet=off -count=1 -run 'ZZ' ./path/exec/
//
// Defect: the position selected by a subscript EXPRESSION depends on the Go
// representation of its operands. "/" between two int64 (or integral
// json.Number) operands is Go integer division (executeIntegerMath,
// path/exec/math.go), so an intermediate quotient is truncated BEFORE the
// rest of the expression is evaluated; the property truncates only once, the
// final value e of the subscript ("position trunc(e)"). The same JSON text
// and the same path select different elements depending on whether the
// document was decoded into float64 (json.Unmarshal), json.Number
// (Decoder.UseNumber) or int64, and `last` (always int64) can never take part
// in a fractional division.
package exec

import (
	"context"
	"encoding/json"
	"reflect"
	"strings"
	"testing"

	"github.com/theory/sqljson/path/parser"
)

func TestZZ_C14_d3_SubscriptDivisionTruncatesEarly(t *testing.T) {
	ctx := context.Background()
	arr := []any{"e0", "e1", "e2", "e3"}

	q := func(path string, doc any) ([]any, error) {
		p, err := parser.Parse(path)
		if err != nil {
			t.Fatalf("%s: %v", path, err)
		}
		return Query(ctx, p, doc)
	}

	// 1. last = 3.  3/2 + 0.5 = 2  => position 2.   Code: 3/2 -> 1, 1 + 0.5 = 1.5 -> position 1.
	// 2. 3/2*2 = 3                 => position 3.   Code: 1*2 = 2.
	// 3. last - last/2 = 1.5       => position 1.   Code: 3 - 1 = 2.
	// 4. 1/2 + 1/2 = 1             => position 1.   Code: 0 + 0 = 0.
	for _, tc := range []struct {
		path string
		want any
	}{
		{"$[last / 2 + 0.5]", "e2"},
		{"$[3 / 2 * 2]", "e3"},
		{"$[last - last / 2]", "e1"},
		{"$[1 / 2 + 1 / 2]", "e1"},
		{"strict $[last / 2 + 0.5]", "e2"},
		{"$[3.0 / 2 * 2]", "e3"}, // control: float operand, passes
	} {
		got, gerr := q(tc.path, arr)
		if gerr != nil || !reflect.DeepEqual(got, []any{tc.want}) {
			t.Errorf("%s on %v: got %v, err %v; want [%v].\n"+
				"  C14: \"returns ... the elements at position trunc(e)\": truncation applies once, to the value e of "+
				"the subscript, not to the intermediate quotient.", tc.path, arr, got, gerr, tc.want)
		}
	}

	// Sibling representations of the same document must select the same element.
	const text = `{"a": ["e0","e1","e2","e3"], "n": 3}`
	var asFloat any
	if err := json.Unmarshal([]byte(text), &asFloat); err != nil {
		t.Fatal(err)
	}
	dec := json.NewDecoder(strings.NewReader(text))
	dec.UseNumber()
	var asNumber any
	if err := dec.Decode(&asNumber); err != nil {
		t.Fatal(err)
	}
	asInt := map[string]any{"a": arr, "n": int64(3)}

	const path = "$.a[$.n / 2 + 0.5]" // 3/2 + 0.5 = 2 => "e2"
	gf, ef := q(path, asFloat)
	gn, en := q(path, asNumber)
	gi, ei := q(path, asInt)
	if ef != nil || !reflect.DeepEqual(gf, []any{"e2"}) {
		t.Errorf("%s, n as float64: got %v, err %v; want [e2]", path, gf, ef)
	}
	if en != nil || !reflect.DeepEqual(gn, []any{"e2"}) {
		t.Errorf("%s, n as json.Number: got %v, err %v; want [e2] (float64 document gives %v); position trunc(3/2 + 0.5) = 2", path, gn, en, gf)
	}
	if ei != nil || !reflect.DeepEqual(gi, []any{"e2"}) {
		t.Errorf("%s, n as int64: got %v, err %v; want [e2] (float64 document gives %v); position trunc(3/2 + 0.5) = 2", path, gi, ei, gf)
	}
}
