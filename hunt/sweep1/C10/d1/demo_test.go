// Demo for property C10, defect d1.
//
// Place this file in the directory path/ of the theory/sqljson checkout
// (package path) and run:
//
//	go test -vet=off -count=1 -run 'ZZ' ./path/
package path

import (
	"context"
	"reflect"
	"testing"
)

// TestZZC10D1StrictFilterAfterRecursiveDescent shows that in strict mode a
// filter placed after a .** step does not evaluate its condition the way the
// same condition evaluates as a predicate check over the item: structural
// errors inside the condition (missing key, member accessor applied to a
// non-object, wildcard array accessor applied to a non-array, subscript out
// of bounds, .size() of a non-array) are not turned into "unknown" but are
// ignored, so items are kept on unknown and dropped on true.
func TestZZC10D1StrictFilterAfterRecursiveDescent(t *testing.T) {
	ctx := context.Background()

	for _, tc := range []struct {
		name   string
		prefix string // P
		condAt string // C over @
		cond   string // C rewritten over $ (predicate check expression)
		doc    any
	}{
		{
			name:   "kept on unknown (negated exists)",
			prefix: "strict $.**",
			condAt: "!(exists(@.a))",
			cond:   "!(exists($.a))",
			doc:    []any{int64(2)},
		},
		{
			name:   "kept on unknown (strict comparison must examine all pairs)",
			prefix: "strict $.**",
			condAt: "@[*].a == 1",
			cond:   "$[*].a == 1",
			doc:    []any{[]any{map[string]any{"a": int64(1)}, int64(5)}},
		},
		{
			name:   "dropped on true (is unknown)",
			prefix: "strict $.**",
			condAt: "(@.a == 1) is unknown",
			cond:   "($.a == 1) is unknown",
			doc:    map[string]any{"b": int64(2)},
		},
		{
			name:   "filter further down the chain after .**",
			prefix: "strict $.**.x",
			condAt: "!(exists(@.a))",
			cond:   "!(exists($.a))",
			doc:    map[string]any{"x": map[string]any{"b": int64(2)}},
		},
	} {
		t.Run(tc.name, func(t *testing.T) {
			items, err := MustParse(tc.prefix).Query(ctx, tc.doc)
			if err != nil {
				t.Fatalf("prefix %q: %v", tc.prefix, err)
			}

			// Oracle, straight from the property: "An item is kept exactly
			// when C, rewritten as a predicate check expression over that
			// item, yields true".
			check := MustParse("strict " + tc.cond)
			var want []any
			for _, item := range items {
				res, err := check.Query(ctx, item)
				if err != nil {
					t.Fatalf("predicate check %q over %v: %v", check, item, err)
				}
				if len(res) == 1 && res[0] == true {
					want = append(want, item)
				}
			}

			filter := MustParse(tc.prefix + " ? (" + tc.condAt + ")")
			got, err := filter.Query(ctx, tc.doc)
			if err != nil {
				t.Fatalf("filter %q: %v", filter, err)
			}

			if len(got) != len(want) || (len(got) > 0 && !reflect.DeepEqual(got, want)) {
				t.Errorf("C10 violated for %q over %v:\n"+
					"  items of P:        %v\n"+
					"  filter kept:       %v\n"+
					"  expected survivors: %v (items for which %q yields true)\n"+
					"C10: \"items for which C is false or unknown - including unknown caused by a "+
					"suppressible error inside C - are dropped ... An item is kept exactly when C, "+
					"rewritten as a predicate check expression over that item, yields true\". "+
					"After a .** step the executor runs the filter condition with structural errors "+
					"ignored although the path is strict, so the condition's outcome differs from the "+
					"strict predicate check.",
					filter, tc.doc, items, got, want, check)
			}
		})
	}

	// Sibling check: the very same filter reached through [*] instead of .**
	// behaves as the property says.
	got, err := MustParse("strict $[*] ? (!(exists(@.a)))").Query(ctx, []any{int64(2)})
	if err != nil || len(got) != 0 {
		t.Errorf("sibling: strict $[*] ? (!(exists(@.a))) over [2] = %v, %v; want no items", got, err)
	}
}
