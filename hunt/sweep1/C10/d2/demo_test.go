// Demo for property C10, defect d2.
//
// Place this file in the directory path/ of the theory/sqljson checkout
// (package path) and run:
//
//	go test -vet=off -count=1 -run 'ZZ' ./path/
package path

import (
	"context"
	"encoding/json"
	"fmt"
	"math/big"
	"reflect"
	"testing"

	"github.com/theory/sqljson/path/exec"
)

// TestZZC10D2FilterComparesRoundedJSONNumber shows that a filter comparing a
// json.Number item that is not spelled as a plain integer (it has a fraction
// part or an exponent) rounds the item to float64 and then compares that
// rounded value *exactly* with the integer on the other side. Items for which
// the comparison is true are dropped and items for which it is false are kept.
func TestZZC10D2FilterComparesRoundedJSONNumber(t *testing.T) {
	ctx := context.Background()

	rat := func(v any) *big.Rat {
		switch v := v.(type) {
		case int64:
			return new(big.Rat).SetInt64(v)
		case json.Number:
			r, ok := new(big.Rat).SetString(string(v))
			if !ok {
				t.Fatalf("bad number %q", v)
			}
			return r
		}
		t.Fatalf("unexpected %T", v)
		return nil
	}
	sat := func(op string, c int) bool {
		switch op {
		case "==":
			return c == 0
		case "!=":
			return c != 0
		case "<":
			return c < 0
		case "<=":
			return c <= 0
		case ">":
			return c > 0
		default:
			return c >= 0
		}
	}

	// 2^53+1 written three ways, and its neighbours. All of them are exact
	// decimal numbers; 9007199254740993.0 and 9.007199254740993e15 denote the
	// integer 9007199254740993.
	doc := []any{
		json.Number("9007199254740992"),
		json.Number("9007199254740993"),
		json.Number("9007199254740993.0"),
		json.Number("9.007199254740993e15"),
		json.Number("9007199254740994"),
	}
	rhs := []any{
		int64(9007199254740992),
		int64(9007199254740993),
		json.Number("9007199254740993"),
		json.Number("9007199254740993.0"),
	}

	mismatches := 0
	for _, mode := range []string{"lax", "strict"} {
		for _, op := range []string{"==", "!=", "<", "<=", ">", ">="} {
			for _, r := range rhs {
				text := fmt.Sprintf("%s $[*] ? (@ %s $v)", mode, op)
				got, err := MustParse(text).Query(ctx, doc, exec.WithVars(exec.Vars{"v": r}))
				if err != nil {
					t.Fatalf("%s: %v", text, err)
				}
				var want []any
				for _, item := range doc {
					if sat(op, rat(item).Cmp(rat(r))) {
						want = append(want, item)
					}
				}
				if len(got) != len(want) || (len(got) > 0 && !reflect.DeepEqual(got, want)) {
					mismatches++
					if mismatches > 4 {
						continue
					}
					t.Errorf("C10 violated: %s with $v = %v (%T) over %v\n"+
						"  filter kept: %v\n"+
						"  expected:    %v\n"+
						"C10: \"The result of P ? (C) is the order-preserving subsequence of P's items "+
						"... for which C evaluates to true with @ bound to the item; items for which C is "+
						"false ... are dropped\". The numbers are compared by value (math/big oracle); the "+
						"executor rounds a json.Number with a fraction or exponent to float64 "+
						"(9007199254740993.0 -> 9007199254740992) and then compares the rounded value "+
						"exactly against the integer operand.",
						text, r, r, doc, got, want)
				}
			}
		}
	}

	if mismatches > 4 {
		t.Errorf("... and %d more operator/operand combinations with the wrong survivors", mismatches-4)
	}

	// The same thing with a literal in the path text instead of a variable.
	got, err := MustParse(`$[*] ? (@ == 9007199254740993)`).Query(ctx, doc)
	if err != nil {
		t.Fatal(err)
	}
	want := []any{doc[1], doc[2], doc[3]}
	if !reflect.DeepEqual(got, want) {
		t.Errorf("$[*] ? (@ == 9007199254740993) over %v kept %v, expected %v: "+
			"C10 requires every item for which the condition is true to be kept", doc, got, want)
	}
	got, err = MustParse(`$[*] ? (@ == 9007199254740992)`).Query(ctx, doc)
	if err != nil {
		t.Fatal(err)
	}
	want = []any{doc[0]}
	if !reflect.DeepEqual(got, want) {
		t.Errorf("$[*] ? (@ == 9007199254740992) over %v kept %v, expected %v: "+
			"C10 requires items for which the condition is false to be dropped", doc, got, want)
	}
}
