// Belongs in: path/parser  (package parser)
// Run:  go test -vet=off -count=1 -run 'ZZ' ./path/parser/
package parser

import (
	"testing"

	"github.com/theory/sqljson/path/ast"
)

// Property C03: "... the escapes \b \f \n \r \t \v \xNN \uNNNN with surrogate
// pairs and \u{N...} ... literals denote their mathematical or Unicode value".
//
// \u{N...} takes 1 to 6 hex digits, so it can spell code points up to
// 0xFFFFFF, but Unicode ends at 0x10FFFF. A \u{...} escape above 0x10FFFF has
// no Unicode value, so the only outcomes compatible with the property are an
// error (what JavaScript and PostgreSQL do) -- never a *different* character.
// The lexer silently turns every such escape into U+FFFD, so distinct
// spellings \u{110000}, \u{FFFFFF} and � all parse to the same string.
func TestZZUnicodeEscapeBeyondMaxRune(t *testing.T) {
	for _, tc := range []struct{ path, where string }{
		{`"\u{110000}"`, "string literal"},
		{`"\u{FFFFFF}"`, "string literal"},
		{`$."\u{110000}"`, "quoted key"},
		{`$.a\u{110000}`, "escaped bare key, last token"},
		{`$.a\u{110000}.b`, "escaped bare key, middle token"},
		{`$"\u{200000}"`, "quoted variable"},
		{`$ ? (@ starts with "\u{110000}")`, "starts with operand"},
	} {
		a, err := Parse(tc.path)
		if err != nil {
			continue // an error is the acceptable outcome
		}
		t.Errorf("Parse(%q) [%s] succeeded and printed %q; expected a parse error: "+
			"property C03 says literals written with \\u{N...} 'denote their ... Unicode value', "+
			"and 0x110000..0xFFFFFF is not a Unicode code point, yet the token was given the value U+FFFD "+
			"(the same tree as the different spelling \\uFFFD)", tc.path, tc.where, a.String())
	}

	// Sanity: the two distinct spellings collapse to one tree.
	a1, err1 := Parse(`"\u{110000}"`)
	a2, err2 := Parse(`"�"`)
	if err1 == nil && err2 == nil {
		s1, _ := a1.Root().(*ast.StringNode)
		s2, _ := a2.Root().(*ast.StringNode)
		if s1 != nil && s2 != nil && s1.Text() == s2.Text() {
			t.Errorf(`"\u{110000}" and "�" parse to the same string %q; a literal must denote its own Unicode value`, s1.Text())
		}
	}

	// The largest real code point must keep working.
	a, err := Parse(`"\u{10FFFF}"`)
	if err != nil {
		t.Fatalf(`"\u{10FFFF}" must parse: %v`, err)
	}
	if s := a.Root().(*ast.StringNode).Text(); s != "\U0010FFFF" {
		t.Errorf(`"\u{10FFFF}" = %q, want U+10FFFF`, s)
	}
}
