// Belongs in: path/parser  (package parser)
// Run:  go test -vet=off -count=1 -run 'ZZ' ./path/parser/
package parser

import (
	"math"
	"testing"

	"github.com/theory/sqljson/path/ast"
)

func anyOf(t *testing.T, path string) (*ast.AnyNode, string) {
	t.Helper()
	a, err := Parse(path)
	if err != nil {
		return nil, err.Error()
	}
	n, ok := a.Root().Next().(*ast.AnyNode)
	if !ok {
		t.Fatalf("Parse(%q): second step is %T, not *ast.AnyNode", path, a.Root().Next())
	}
	return n, a.String()
}

// Property C03: "Parse returns that abstract path: literals denote their
// mathematical ... value" and "decimal/hex/octal/binary/underscore ... number
// forms".  README: ".**{level} ... Nesting levels are specified as integers
// ... To access the lowest nesting level, you can use the last keyword."
//
// The integer literal inside .**{ } is converted with
//     n, _ := strconv.ParseInt($1, 0, 64); $$ = int(n)
// and ast.NewAny stores every value >= 4294967295 as math.MaxUint32, which is
// the sentinel that means the keyword `last`.  So the integer literal
// 4294967295 (and every larger one, including literals that do not fit in an
// int64 and are a parse error everywhere else) parses to the tree of `last`.
// `.**{4294967295}` must select only depth 4294967295 (nothing, in practice);
// `.**{last}` selects the leaves -- a different query.
func TestZZAnyLevelLiteralBecomesLast(t *testing.T) {
	last, _ := anyOf(t, `$.**{last}`)
	if last == nil || last.First() != math.MaxUint32 || last.Last() != math.MaxUint32 {
		t.Fatalf("unexpected tree for $.**{last}: %+v", last)
	}

	// Baseline: a level just below the boundary keeps its value.
	if n, s := anyOf(t, `$.**{4294967294}`); n == nil || n.First() != 4294967294 || n.Last() != 4294967294 {
		t.Fatalf("$.**{4294967294}: got %v (%s)", n, s)
	}

	for _, path := range []string{
		`$.**{4294967295}`,                // 2^32-1
		`$.**{0xFFFFFFFF}`,                // same, hex spelling
		`$.**{4_294_967_296}`,             // 2^32
		`$.**{9223372036854775807}`,       // max int64
		`$.**{99999999999999999999}`,      // not an int64: ParseInt error is discarded
		`$.**{0 to 4294967295}`,           // as upper bound
		`$.**{4294967295 to 4294967295}`,  // both
	} {
		n, s := anyOf(t, path)
		if n == nil {
			continue // a parse error ("out of range") is an acceptable outcome
		}
		if n.First() == math.MaxUint32 || n.Last() == math.MaxUint32 {
			t.Errorf("Parse(%q) = %q with First()=%d Last()=%d: the integer literal was turned into the keyword `last` "+
				"(math.MaxUint32 is the 'last' sentinel). Property C03: 'literals denote their mathematical value'; "+
				"expected either a level equal to the literal's value or an out-of-range parse error, "+
				"as for the same literal anywhere else in a path", path, s, n.First(), n.Last())
		}
	}

	// The same out-of-range literal is rejected everywhere else.
	if _, err := Parse(`$[99999999999999999999]`); err == nil {
		t.Errorf("sanity: $[99999999999999999999] expected to be a parse error")
	}
}
