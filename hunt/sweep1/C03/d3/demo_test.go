// Belongs in: path/parser  (package parser)
// Run:  go test -vet=off -count=1 -run 'ZZ' ./path/parser/
package parser

import (
	"testing"
	"unicode"

	"github.com/theory/sqljson/path/ast"
)

// Property C03: "every concrete spelling ... that the documented syntax
// permits (... bare vs quoted vs escaped keys ...) Parse returns that abstract
// path".  The documented rule for bare keys (path/README.md, Path Accessors):
// "If the key name ... does not meet the JavaScript rules for an identifier,
// it must be enclosed in double quotes".  JavaScript's rule (ECMA-262
// IdentifierName) is: first code point has the Unicode property ID_Start (or
// $ or _), the rest have ID_Continue (or $, U+200C, U+200D).
//
// The lexer uses XID_Start/XID_Continue (github.com/smasher164/xid) instead of
// ID_Start/ID_Continue, so the code points that are ID_Start but not
// XID_Start are rejected in a bare key although the documented rule permits
// them, and ZWNJ/ZWJ are rejected inside a bare key.  The quoted and escaped
// spellings of the very same keys parse fine, so the three spellings of one
// abstract path do not agree.
func TestZZBareKeyJavaScriptIdentifier(t *testing.T) {
	keyOf := func(path string) (string, error) {
		a, err := Parse(path)
		if err != nil {
			return "", err
		}
		return a.Root().Next().(*ast.KeyNode).Text(), nil
	}

	// Oracle written from the Unicode definitions of ID_Start / ID_Continue
	// (UAX #31), using Go's own tables (same Unicode version as xid: 15.0).
	idStart := func(r rune) bool {
		return (unicode.IsLetter(r) || unicode.Is(unicode.Nl, r) || unicode.Is(unicode.Other_ID_Start, r)) &&
			!unicode.Is(unicode.Pattern_Syntax, r) && !unicode.Is(unicode.Pattern_White_Space, r)
	}
	idContinue := func(r rune) bool {
		return idStart(r) || unicode.Is(unicode.Mn, r) || unicode.Is(unicode.Mc, r) || unicode.Is(unicode.Nd, r) ||
			unicode.Is(unicode.Pc, r) || unicode.Is(unicode.Other_ID_Continue, r) || r == 0x200C || r == 0x200D
	}

	bad := 0
	for r := rune(0x80); r <= unicode.MaxRune; r++ {
		if r >= 0xD800 && r <= 0xDFFF {
			continue
		}
		if idStart(r) {
			want := string(r)
			if got, err := keyOf("$." + want); err != nil || got != want {
				bad++
				if bad <= 8 {
					q, _ := keyOf(`$."` + want + `"`)
					t.Errorf("bare key %U %q (ID_Start, a valid JavaScript identifier): Parse(%q) = %q, %v; "+
						"the quoted spelling gives key %q. Documented rule: a key needs quotes only if it 'does not meet the JavaScript rules for an identifier'",
						r, want, "$."+want, got, err, q)
				}
			}
		}
		if idContinue(r) {
			want := "a" + string(r) + "b"
			if got, err := keyOf("$." + want); err != nil || got != want {
				bad++
				if bad <= 8 {
					t.Errorf("bare key %q (%U is a valid JavaScript IdentifierPart): Parse(%q) = %q, %v", want, r, "$."+want, got, err)
				}
			}
		}
	}
	if bad > 0 {
		t.Errorf("%d bare-key spellings permitted by the documented JavaScript identifier rule are not parsed as that key", bad)
	}
}
