// Place this file in path/exec (directory /tmp/mut/C16/path/exec); it is an
// external test of package github.com/theory/sqljson/path/exec.
// Run: go test -vet=off -count=1 -run 'ZZ' ./path/exec
package exec_test

import (
	"context"
	"encoding/json"
	"fmt"
	"math"
	"math/big"
	"testing"

	"github.com/theory/sqljson/path/exec"
	"github.com/theory/sqljson/path/parser"
)

// zzDecimalOracle computes .decimal(p,s) from the property text: the exact
// value of the input is rounded (half away from zero) to a multiple of 10^-s;
// it is an error if that needs more than p digits (|v| >= 10^(p-s)) or is not
// a finite double; otherwise the result is the double nearest to it.
func zzDecimalOracle(exact *big.Rat, p, s int) (float64, bool) {
	pow := func(n int) *big.Rat {
		m := n
		if m < 0 {
			m = -m
		}
		x := new(big.Int).Exp(big.NewInt(10), big.NewInt(int64(m)), nil)
		if n >= 0 {
			return new(big.Rat).SetInt(x)
		}
		return new(big.Rat).SetFrac(big.NewInt(1), x)
	}
	scaled := new(big.Rat).Mul(exact, pow(s))
	neg := scaled.Sign() < 0
	a := new(big.Rat).Abs(scaled)
	a.Add(a, big.NewRat(1, 2))
	q := new(big.Int).Quo(a.Num(), a.Denom())
	if neg {
		q.Neg(q)
	}
	v := new(big.Rat).Mul(new(big.Rat).SetInt(q), pow(-s))
	if new(big.Rat).Abs(v).Cmp(pow(p-s)) >= 0 {
		return 0, false
	}
	f, _ := v.Float64()
	if math.IsInf(f, 0) {
		return 0, false
	}
	return f, true
}

// TestZZD2DecimalRoundsInFloat64 demonstrates that .decimal(p,s) rounds to the
// scale with float64 arithmetic, math.Round(num*10^s)/10^s, which (a) rounds
// twice, so a digit that is exactly or nearly a half goes the wrong way, even
// for an int64 input and a negative scale, (b) changes a value that is already
// a multiple of 10^-s, and (c) is skipped altogether when 10^s overflows
// (scale 309..1000), so that tiny numbers come back with more digits than the
// declared precision and scale allow.
//
// Property C16: ".decimal(p,s) ... return the correctly rounded value, and
// return an error rather than a value outside ... the declared precision and
// scale (.decimal())"; quantifier "a boundary grid of numbers (... halves,
// 2^53, ..., tiny/huge) in float64, json.Number and string form x all
// precision/scale pairs in range".
func TestZZD2DecimalRoundsInFloat64(t *testing.T) {
	rat := func(s string) *big.Rat {
		r, ok := new(big.Rat).SetString(s)
		if !ok {
			t.Fatalf("bad number %q", s)
		}
		return r
	}
	for _, tc := range []struct {
		in    any
		exact *big.Rat
		p, s  int
		why   string
	}{
		// (a) double rounding, decimal input given exactly as text
		{json.Number("1.005"), rat("1.005"), 3, 2, "1.005 is a half at scale 2: rounds to 1.01"},
		{"1.005", rat("1.005"), 3, 2, "the string 1.005 is a half at scale 2: rounds to 1.01"},
		{json.Number("0.285"), rat("0.285"), 2, 2, "0.285 rounds to 0.29"},
		{"2.06335", rat("2.06335"), 5, 4, "2.06335 rounds to 2.0634"},
		// (a) double rounding with an exact int64 input: not even a half
		{int64(6838494013162244), rat("6838494013162244"), 16, -1, "...244 rounds DOWN to ...240 at scale -1"},
		// (b) a value that is already a multiple of 10^-s must be unchanged
		{json.Number("1e308"), rat("1e308"), 1000, -307, "1e308 is a multiple of 10^307: unchanged"},
		{json.Number("1.5e308"), rat("1.5e308"), 1000, -308, "rounds to 2e308, which is not a finite double: error"},
		// (c) scale >= 309: no rounding at all
		{json.Number("1.5e-310"), rat("1.5e-310"), 1, 310, "rounds to 2e-310 (one digit at scale 310)"},
		{1.5e-310, new(big.Rat).SetFloat64(1.5e-310), 1, 310, "rounds to 2e-310 (one digit at scale 310)"},
		{json.Number("1e-320"), rat("1e-320"), 1000, 309, "is less than half of 10^-309: rounds to 0"},
	} {
		name := fmt.Sprintf("%T_%v_decimal(%d,%d)", tc.in, tc.in, tc.p, tc.s)
		t.Run(name, func(t *testing.T) {
			path := fmt.Sprintf("$.decimal(%d,%d)", tc.p, tc.s)
			p, err := parser.Parse(path)
			if err != nil {
				t.Fatal(err)
			}
			want, ok := zzDecimalOracle(tc.exact, tc.p, tc.s)
			res, err := exec.Query(context.Background(), p, tc.in)
			switch {
			case ok && err != nil:
				t.Errorf("%s of %T %v: got error %q, expected %v (%s). C16: \"return the correctly rounded value\"",
					path, tc.in, tc.in, err, want, tc.why)
			case ok && (len(res) != 1 || res[0] != any(want)):
				t.Errorf("%s of %T %v: got %v, expected %v (%s). C16: \"return the correctly rounded value ... "+
					"rather than a value outside ... the declared precision and scale (.decimal())\"",
					path, tc.in, tc.in, res, want, tc.why)
			case !ok && err == nil:
				t.Errorf("%s of %T %v: got %v, expected an error (%s). C16: \"return an error rather than a value outside "+
					"... the declared precision and scale (.decimal()) or the finite doubles\"",
					path, tc.in, tc.in, res, tc.why)
			}
		})
	}
}
