// Place this file in path/exec (directory /tmp/mut/C16/path/exec); it is an
// external test of package github.com/theory/sqljson/path/exec.
// Run: go test -vet=off -count=1 -run 'ZZ' ./path/exec
package exec_test

import (
	"context"
	"reflect"
	"sort"
	"testing"

	"github.com/theory/sqljson/path/exec"
	"github.com/theory/sqljson/path/parser"
)

// TestZZD4KeyValueIDCollision demonstrates that two different objects of one
// document get the same .keyvalue() id when they lie at the same distance
// below and above the base object in memory, because the "offset" part of the
// id is the ABSOLUTE difference of the addresses.
//
// Property C16: ".keyvalue() yields one {key, value, id} object per member,
// ids equal within an object, distinct across objects ...".
func TestZZD4KeyValueIDCollision(t *testing.T) {
	addr := func(m map[string]any) uintptr { return reflect.ValueOf(m).Pointer() }

	// Small maps come out of one size class, so consecutive allocations are
	// equally spaced; pick three maps lo < mid < hi with mid-lo == hi-mid.
	var lo, mid, hi map[string]any
	for attempt := 0; attempt < 50 && mid == nil; attempt++ {
		ms := make([]map[string]any, 4096)
		for i := range ms {
			ms[i] = map[string]any{}
		}
		sort.Slice(ms, func(i, j int) bool { return addr(ms[i]) < addr(ms[j]) })
		byAddr := make(map[uintptr]map[string]any, len(ms))
		for _, m := range ms {
			byAddr[addr(m)] = m
		}
		for i := 1; i < len(ms); i++ {
			d := addr(ms[i]) - addr(ms[i-1])
			if h, ok := byAddr[addr(ms[i])+d]; ok {
				lo, mid, hi = ms[i-1], ms[i], h
				break
			}
		}
	}
	if mid == nil {
		t.Skip("could not find three equally spaced maps; allocator layout differs")
	}

	// The document: the root object (the base object of '$') has two member
	// objects, one on each side of it in memory.
	lo["x"] = int64(1)
	hi["y"] = int64(2)
	mid["below"] = lo
	mid["above"] = hi

	// First with two plain member accessors (no wildcard involved) ...
	idOf := func(path string) any {
		p, err := parser.Parse(path)
		if err != nil {
			t.Fatal(err)
		}
		res, err := exec.Query(context.Background(), p, mid)
		if err != nil || len(res) != 1 {
			t.Fatalf("%s: %v %v", path, res, err)
		}
		return res[0]
	}
	idBelow, idAbove := idOf("$.below.keyvalue().id"), idOf("$.above.keyvalue().id")
	if idBelow == idAbove {
		t.Errorf("$.below.keyvalue().id = %v and $.above.keyvalue().id = %v: two DIFFERENT objects of one document "+
			"(at %#x and %#x, root at %#x) have the same id. C16 requires ids \"equal within an object, distinct "+
			"across objects\"; kvBaseObject.OffsetOf returns |addr - base|, which is the same for base-d and base+d",
			idBelow, idAbove, addr(lo), addr(hi), addr(mid))
	}

	// ... then within a single execution.
	p, err := parser.Parse("$.*.keyvalue()")
	if err != nil {
		t.Fatal(err)
	}
	res, err := exec.Query(context.Background(), p, mid)
	if err != nil {
		t.Fatal(err)
	}
	if len(res) != 2 {
		t.Fatalf("expected 2 items, got %v", res)
	}
	a, b := res[0].(map[string]any), res[1].(map[string]any)
	if a["key"] != b["key"] && a["id"] == b["id"] {
		t.Errorf("$.*.keyvalue() in one execution: the member %q of one object and the member %q of another object "+
			"both have id %v. C16 requires ids \"distinct across objects\"",
			a["key"], b["key"], a["id"])
	}
}
