// Place this file in path/exec (directory /tmp/mut/C16/path/exec); it is an
// external test of package github.com/theory/sqljson/path/exec.
// Run: go test -vet=off -count=1 -run 'ZZ' ./path/exec
package exec_test

import (
	"context"
	"encoding/json"
	"math"
	"math/big"
	"testing"

	"github.com/theory/sqljson/path/exec"
	"github.com/theory/sqljson/path/parser"
)

// TestZZD1JSONNumberIntegerBigint demonstrates that .integer() and .bigint()
// decide range and rounding of a json.Number through float64, so that the
// answer is wrong whenever the decimal text of the number is not exactly a
// float64.
//
// Property C16: ".integer(), .bigint() ... accept their documented input
// types ..., return the correctly rounded value, and return an error rather
// than a value outside int32 (.integer()), int64 (.bigint())". Quantifier:
// "a boundary grid of numbers (int32/int64 limits +-1, halves, 2^53, 2^63 as
// double ...) in float64, json.Number and string form".
func TestZZD1JSONNumberIntegerBigint(t *testing.T) {
	// oracle: exact rational value of the json.Number text, rounded half
	// away from zero (the rounding the float64 branch itself uses via
	// math.Round, and the one PostgreSQL numeric uses), then range-checked.
	oracle := func(text string, lo, hi int64) (int64, bool) {
		r, ok := new(big.Rat).SetString(text)
		if !ok {
			t.Fatalf("bad number %q", text)
		}
		neg := r.Sign() < 0
		a := new(big.Rat).Abs(r)
		a.Add(a, big.NewRat(1, 2))
		q := new(big.Int).Quo(a.Num(), a.Denom())
		if neg {
			q.Neg(q)
		}
		if !q.IsInt64() || q.Int64() < lo || q.Int64() > hi {
			return 0, false
		}
		return q.Int64(), true
	}

	for _, tc := range []struct {
		method string
		lo, hi int64
		text   string
		why    string
	}{
		{"bigint", math.MinInt64, math.MaxInt64, "-9223372036854775809", "int64 minimum - 1 is outside int64: must be an error, not a value"},
		{"bigint", math.MinInt64, math.MaxInt64, "-9223372036854775808.5", "rounds to -9223372036854775809, outside int64: must be an error"},
		{"bigint", math.MinInt64, math.MaxInt64, "9223372036854775807.4", "rounds to 9223372036854775807 = int64 maximum: must be accepted"},
		{"bigint", math.MinInt64, math.MaxInt64, "9007199254740993.0", "2^53+1 is an integer: must be returned unchanged"},
		{"bigint", math.MinInt64, math.MaxInt64, "0.49999999999999999999", "less than one half: rounds to 0"},
		{"integer", math.MinInt32, math.MaxInt32, "0.49999999999999999999", "less than one half: rounds to 0"},
		{"integer", math.MinInt32, math.MaxInt32, "2147483647.4999999999999", "rounds to 2147483647 = int32 maximum: must be accepted"},
		{"integer", math.MinInt32, math.MaxInt32, "-2147483648.49999999999999999", "rounds to -2147483648 = int32 minimum: must be accepted"},
	} {
		t.Run(tc.method+"/"+tc.text, func(t *testing.T) {
			p, err := parser.Parse("$." + tc.method + "()")
			if err != nil {
				t.Fatal(err)
			}
			want, ok := oracle(tc.text, tc.lo, tc.hi)
			res, err := exec.Query(context.Background(), p, json.Number(tc.text))
			switch {
			case ok && err != nil:
				t.Errorf("$.%s() of json.Number %s: got error %q, expected %d (%s). "+
					"C16: the methods \"return the correctly rounded value\"",
					tc.method, tc.text, err, want, tc.why)
			case ok && (len(res) != 1 || res[0] != any(want)):
				t.Errorf("$.%s() of json.Number %s: got %v, expected %d (%s). "+
					"C16: the methods \"return the correctly rounded value\"",
					tc.method, tc.text, res, want, tc.why)
			case !ok && err == nil:
				t.Errorf("$.%s() of json.Number %s: got %v, expected an error (%s). "+
					"C16: \"return an error rather than a value outside int32 (.integer()), int64 (.bigint())\"",
					tc.method, tc.text, res, tc.why)
			}
		})
	}
}
