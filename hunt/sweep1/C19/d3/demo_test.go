// Place this file in path/ (package path) of theory/sqljson and run
//
//	go test -vet=off -count=1 -run 'ZZ' ./path/
//
// Defect: casting or comparing a time (without zone) to a timetz under
// WithTZ() resolves the zone offset on time.Now()'s calendar date
// (types.Time.ToTimeTZ). With a context time zone that observes DST the items
// returned, and the truth value of a comparison, therefore depend on the day
// on which the call happens to run: the same call on the same Path, document,
// options and context gives different answers in winter and in summer.
//
// The test makes the wall-clock date move without waiting by replacing
// time.Local with fixed zones whose offsets are whole numbers of days (the
// library reads the date as time.Now().Year/Month/Day, i.e. in time.Local).
// Nothing that is an input of the call changes between the repetitions.
// Do not run it in parallel with other tests: it temporarily sets time.Local.
package path

import (
	"context"
	"fmt"
	"testing"
	"time"
	_ "time/tzdata" // so that America/New_York loads without system zoneinfo

	"github.com/theory/sqljson/path/exec"
	"github.com/theory/sqljson/path/types"
)

func TestZZTimeToTimeTZDependsOnWallClock(t *testing.T) {
	const clause = `C19: "Repeating a query on the same inputs returns the same items (order of object ` +
		`members aside) and the same error, independently of any queries executed before on the same Path."`

	ny, err := time.LoadLocation("America/New_York")
	if err != nil {
		t.Skipf("no tzdata: %v", err)
	}
	ctx := types.ContextWithTZ(context.Background(), ny)
	doc := "12:00:00"

	saved := time.Local
	defer func() { time.Local = saved }()

	for _, ps := range []string{
		`$.time_tz()`,                              // item itself changes: 12:00:00-04:00 / 12:00:00-05:00
		`$.time() < "16:30:00+00".time_tz()`,       // predicate flips between true and false
		`$ ? (@.time() < "16:30:00+00".time_tz())`, // filter keeps or drops the item
	} {
		p := MustParse(ps)
		seen := map[string][]string{}
		// "today", and the days 13, 26 and 39 weeks later: at least one of
		// them is on the other side of a DST switch from today.
		for _, days := range []int{0, 91, 182, 273} {
			time.Local = time.FixedZone("shifted", days*86400)
			today := time.Now().Format("2006-01-02")
			items, err := p.Query(ctx, doc, exec.WithTZ())
			k := fmt.Sprintf("%v err=%v", items, err)
			seen[k] = append(seen[k], today)
		}
		time.Local = saved
		if len(seen) != 1 {
			t.Errorf("Query(%s, WithTZ) on %q with context zone America/New_York returned different results "+
				"depending only on the wall-clock date of the call: %v\n"+
				"expected the same items on every repetition, by %s\n"+
				"(types.Time.ToTimeTZ picks the zone offset in force on time.Now()'s date)",
				ps, doc, seen, clause)
		}
	}
}
