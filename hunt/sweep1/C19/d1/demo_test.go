// Place this file in path/ (package path) of theory/sqljson and run
//
//	go test -vet=off -count=1 -run 'ZZ' ./path/
//
// Defect: the outcome of a query that walks an object with .* or .** (not just
// the order of the items) depends on Go's randomised map iteration order:
// whether Exists answers true or an error, whether Query succeeds or fails,
// and how many items a silent Query returns all change from one repetition
// to the next on the very same *Path and the very same document value.
package path

import (
	"context"
	"encoding/json"
	"fmt"
	"sort"
	"testing"

	"github.com/theory/sqljson/path/exec"
)

const zzC19Clause = `C19: "Repeating a query on the same inputs returns the same items ` +
	`(order of object members aside) and the same error, independently of any ` +
	`queries executed before on the same Path."`

func zzDoc(t *testing.T, s string) any {
	t.Helper()
	var v any
	if err := json.Unmarshal([]byte(s), &v); err != nil {
		t.Fatal(err)
	}
	return v
}

// zzOutcomes repeats call n times and returns the distinct outcomes with
// their frequencies.
func zzOutcomes(n int, call func() string) map[string]int {
	seen := map[string]int{}
	for range n {
		seen[call()]++
	}
	return seen
}

// zzItems renders a result list independently of the order of its items, so
// that only differences the property does not excuse are left.
func zzItems(items []any, err error) string {
	s := make([]string, len(items))
	for i, it := range items {
		s[i] = fmt.Sprintf("%T(%v)", it, it)
	}
	sort.Strings(s)
	return fmt.Sprintf("items=%v err=%v", s, err)
}

func TestZZMapOrderChangesOutcome(t *testing.T) {
	ctx := context.Background()
	const reps = 400 // each repetition is an independent draw of the map order

	t.Run("Exists true or error", func(t *testing.T) {
		p := MustParse(`$.*.double()`)
		doc := zzDoc(t, `{"a":1,"b":"x"}`)
		got := zzOutcomes(reps, func() string {
			ok, err := p.Exists(ctx, doc)
			return fmt.Sprintf("(%v, %v)", ok, err)
		})
		if len(got) != 1 {
			t.Errorf("Exists(%s) on {\"a\":1,\"b\":\"x\"} repeated %d times gave %d different answers: %v\n"+
				"expected one answer for all repetitions, by %s\n"+
				"(lax Exists stops at the first member that yields an item; which member comes first is random, "+
				"so it is either true/nil or false/\".double() is invalid\")",
				p, reps, len(got), got, zzC19Clause)
		}
	})

	t.Run("silent Query item count", func(t *testing.T) {
		p := MustParse(`$.*.double()`)
		doc := zzDoc(t, `{"a":1,"b":"x"}`)
		got := zzOutcomes(reps, func() string {
			return zzItems(p.Query(ctx, doc, exec.WithSilent()))
		})
		if len(got) != 1 {
			t.Errorf("Query(%s, WithSilent) repeated %d times gave %d different results "+
				"(compared as multisets, i.e. member order aside): %v\nexpected one result, by %s",
				p, reps, len(got), got, zzC19Clause)
		}
	})

	t.Run("strict silent Query item count", func(t *testing.T) {
		p := MustParse(`strict $.*.a`)
		doc := zzDoc(t, `{"a":1,"b":{"a":2}}`)
		got := zzOutcomes(reps, func() string {
			return zzItems(p.Query(ctx, doc, exec.WithSilent()))
		})
		if len(got) != 1 {
			t.Errorf("Query(%s, WithSilent) repeated %d times gave %d different results "+
				"(compared as multisets): %v\nexpected one result, by %s",
				p, reps, len(got), got, zzC19Clause)
		}
	})

	t.Run("verbose Query succeeds or fails", func(t *testing.T) {
		p := MustParse(`$ ? (@.*.datetime() < "2020-01-01T00:00:00+00".datetime())`)
		doc := zzDoc(t, `{"a":"2019-01-01T00:00:00+00","b":"2019-01-01"}`)
		got := zzOutcomes(reps, func() string {
			items, err := p.Query(ctx, doc)
			return fmt.Sprintf("n=%d err=%v", len(items), err)
		})
		if len(got) != 1 {
			t.Errorf("Query(%s) repeated %d times gave %d different outcomes: %v\n"+
				"expected one outcome (same items and same error), by %s",
				p, reps, len(got), got, zzC19Clause)
		}
	})
}
