// Belongs in: path/parser  (package parser), e.g. as path/parser/zz_demo_test.go
// Run with:   go test -vet=off -count=1 -timeout 300s -run 'ZZ' ./path/parser/
//
// Defect: Parse is not total on long inputs. The validation pass
// (ast.New -> validateNode) recurses once per accessor of a chain, so the
// goroutine stack grows linearly with the length of the path text. A valid,
// perfectly flat path "$.*.*.*..." with nine million steps (18 MB of text)
// exceeds Go's 1 GB stack limit and the process dies with "fatal error: stack
// overflow", which recover() cannot intercept and which takes the whole
// program down, not just the caller of Parse.
//
// Because the failure kills the process, the parse runs in a child process
// (this same test binary, re-executed); the parent reports. Needs about 2.5 GB
// of memory and ~10 s. ZZ_STEPS overrides the number of steps.
package parser

import (
	"bytes"
	"fmt"
	"os"
	"os/exec"
	"strconv"
	"strings"
	"testing"
)

func zzSteps() int {
	if s := os.Getenv("ZZ_STEPS"); s != "" {
		if n, err := strconv.Atoi(s); err == nil {
			return n
		}
	}
	return 9_000_000
}

// TestZZLongChainChild is the child: it only runs when ZZ_CHILD=1.
func TestZZLongChainChild(t *testing.T) {
	if os.Getenv("ZZ_CHILD") != "1" {
		t.Skip("helper for TestZZLongChainIsNotFatal")
	}
	src := "$" + strings.Repeat(".*", zzSteps())
	var outcome string
	func() {
		defer func() {
			if r := recover(); r != nil {
				outcome = fmt.Sprintf("panic: %v", r)
			}
		}()
		ast, err := Parse(src)
		outcome = fmt.Sprintf("returned ast!=nil:%v err:%v", ast != nil, err)
	}()
	fmt.Printf("ZZ_OUTCOME len=%d %s\n", len(src), outcome)
}

func TestZZLongChainIsNotFatal(t *testing.T) {
	// Control: the same shape, a thousand times shorter, is a valid path.
	if ast, err := Parse("$" + strings.Repeat(".*", 9000)); err != nil || ast == nil {
		t.Fatalf("control: short chain rejected: %v", err)
	}

	cmd := exec.Command(os.Args[0], "-test.run=^TestZZLongChainChild$", "-test.v", "-test.timeout=250s")
	cmd.Env = append(os.Environ(), "ZZ_CHILD=1")
	var out bytes.Buffer
	cmd.Stdout, cmd.Stderr = &out, &out
	err := cmd.Run()

	text := out.String()
	var outcome, fatal string
	for _, line := range strings.Split(text, "\n") {
		if strings.HasPrefix(line, "ZZ_OUTCOME") {
			outcome = line
		}
		if strings.HasPrefix(line, "fatal error:") || strings.Contains(line, "goroutine stack exceeds") {
			fatal += line + "; "
		}
	}
	if err == nil && outcome != "" && !strings.Contains(outcome, "panic:") {
		t.Logf("child: %s", outcome)
		return // Parse returned a path or an error: total on this input.
	}
	if len(text) > 600 {
		text = text[:600] + "..."
	}
	t.Fatalf("Parse(\"$\" + strings.Repeat(\".*\", %d)) did not return: child process ended with %v, %s outcome=%q.\n"+
		"Property C04: \"For every byte string, Parse returns either a non-nil path and a nil error or a nil path and an error "+
		"wrapping path.ErrPath and parser.ErrParse; it never panics, hangs or returns both nil\". The input is a syntactically "+
		"valid flat path; expected a *ast.AST (or, if a size limit is intended, a parser.ErrParse error), got an unrecoverable "+
		"runtime stack overflow from ast.validateNode recursing once per step.\nchild output (head):\n%s",
		zzSteps(), err, fatal, outcome, text)
}
