// Belongs in: path/parser  (package parser), e.g. as path/parser/zz_demo_test.go
// Run with:   go test -vet=off -count=1 -run 'ZZ' ./path/parser/
//
// Defect: keywords are recognised after strings.ToLower, which is a Unicode
// mapping: U+0130 (LATIN CAPITAL LETTER I WITH DOT ABOVE) lowercases to "i"
// and U+212A (KELVIN SIGN) to "k". Identifiers that merely look like a keyword
// are therefore lexed as that keyword and accepted where only the keyword is
// grammatical: "strİct $" is strict mode, "$.sİze()" is .size().
package parser

import (
	"strings"
	"testing"
)

func TestZZKeywordsAreNotUnicodeCaseFolded(t *testing.T) {
	const (
		dotI   = "\u0130" // LATIN CAPITAL LETTER I WITH DOT ABOVE
		kelvin = "\u212A" // KELVIN SIGN
	)
	// Each entry: a valid path, and the position-preserving near-miss where
	// one ASCII letter of a keyword is replaced by a non-ASCII look-alike.
	// The near-miss has an ordinary identifier (ID_Start ID_Continue*) where
	// the grammar demands a keyword, so it must be a syntax error, exactly like
	// the control near-misses in the third column, which the parser rejects.
	cases := []struct{ valid, nearMiss, control string }{
		{"strict $", "str" + dotI + "ct $", "strikt $"},
		{"$[0 to 1]", "$[0 to 1]", "$[0 tö 1]"},               // no i/k: control row only
		{"$.a.size()", "$.a.s" + dotI + "ze()", "$.a.sıze()"}, // dotless ı
		{"$.a.bigint()", "$.a.b" + dotI + "g" + dotI + "nt()", "$.a.bıgınt()"},
		{"$.a.integer()", "$.a." + dotI + "nteger()", "$.a.ınteger()"},
		{"$.a.string()", "$.a.str" + dotI + "ng()", "$.a.strıng()"},
		{"$.a.ceiling()", "$.a.ce" + dotI + "l" + dotI + "ng()", "$.a.ceılıng()"},
		{"$.a.decimal(5,2)", "$.a.dec" + dotI + "mal(5,2)", "$.a.decımal(5,2)"},
		{"$.a.datetime()", "$.a.datet" + dotI + "me()", "$.a.datetıme()"},
		{"$.a.time(3)", "$.a.t" + dotI + "me(3)", "$.a.tıme(3)"},
		{"$.a.time_tz()", "$.a.t" + dotI + "me_tz()", "$.a.tıme_tz()"},
		{"$.a.timestamp()", "$.a.t" + dotI + "mestamp()", "$.a.tımestamp()"},
		{"$.a.timestamp_tz()", "$.a.t" + dotI + "mestamp_tz()", "$.a.tımestamp_tz()"},
		{"$.a.keyvalue()", "$.a." + kelvin + "eyvalue()", "$.a.ĸeyvalue()"}, // U+0138 kra
		{"$ ? (exists (@.a))", "$ ? (ex" + dotI + "sts (@.a))", "$ ? (exısts (@.a))"},
		{"$ ? (@ like_regex \"a\")", "$ ? (@ l" + dotI + kelvin + "e_regex \"a\")", "$ ? (@ lıke_regex \"a\")"},
		{"$ ? (@ starts with \"a\")", "$ ? (@ starts w" + dotI + "th \"a\")", "$ ? (@ starts wıth \"a\")"},
		{"$ ? ((@ > 1) is unknown)", "$ ? ((@ > 1) " + dotI + "s un" + kelvin + "nown)", "$ ? ((@ > 1) ıs unĸnown)"},
	}

	bad := 0
	for _, tc := range cases {
		if _, err := Parse(tc.valid); err != nil {
			t.Fatalf("control: Parse(%q) failed: %v", tc.valid, err)
		}
		if tc.control != tc.valid {
			if ast, err := Parse(tc.control); err == nil {
				t.Fatalf("control: Parse(%q) unexpectedly accepted as %v", tc.control, ast)
			}
		}
		if tc.nearMiss == tc.valid {
			continue
		}
		// Sanity of the oracle: the near-miss is not the keyword spelling under
		// ASCII case-insensitivity, nor under Unicode simple case folding when
		// it contains U+0130.
		if strings.Contains(tc.nearMiss, dotI) && strings.EqualFold(tc.nearMiss, tc.valid) {
			t.Fatalf("oracle: %q folds to %q", tc.nearMiss, tc.valid)
		}
		ast, err := Parse(tc.nearMiss)
		if err == nil {
			bad++
			t.Errorf("Parse(%q) accepted and parsed as %q; want a syntax error (like Parse(%q))", tc.nearMiss, ast.String(), tc.control)
		}
	}
	if bad > 0 {
		t.Fatalf("%d near-misses of keywords were accepted. Property C04: \"Inputs the documented syntax forbids are rejected\" "+
			"(quantifier: \"systematically constructed near-misses of every validity rule\"). The documented keywords are the ASCII "+
			"words strict, lax, to, is, exists, like_regex, size, ...; an identifier containing U+0130 or U+212A is a different "+
			"identifier, and `ident $`, `.ident()`, `@ ident \"a\"` are syntax errors for every other identifier. "+
			"identToken compares strings.ToLower(ident), and unicode.ToLower(U+0130)='i', unicode.ToLower(U+212A)='k'.", bad)
	}
}
