// Belongs in: path/parser  (package parser), e.g. as path/parser/zz_demo_test.go
// Run with:   go test -vet=off -count=1 -run 'ZZ' ./path/parser/
//
// Defect: a \u{N...} escape whose value is above U+10FFFF (1 to 6 hex digits
// allow up to FFFFFF) is accepted, in strings, quoted variables, quoted keys
// and bare identifiers, and silently turned into U+FFFD.
package parser

import (
	"fmt"
	"strconv"
	"testing"
	"unicode/utf8"
)

func TestZZUnicodeEscapeAboveMaxRune(t *testing.T) {
	// An independent oracle for one \u{...} escape, from the property text
	// ("malformed ... escapes ... are rejected") and the documented syntax
	// ("\u{N...} for a character code written with 1 to 6 hex digits"): the
	// escape denotes the character with that code, so there has to be one.
	valid := func(hex string) bool {
		v, err := strconv.ParseUint(hex, 16, 32)
		return err == nil && len(hex) >= 1 && len(hex) <= 6 &&
			v != 0 && // \u0000 is documented as unsupported
			utf8.ValidRune(rune(v)) // excludes > 10FFFF and lone surrogates
	}

	codes := []string{
		"41", "10FFFF", "10ffff", "0FFFFF", // valid
		"110000", "110001", "1FFFFF", "200000", "7FFFFF", "800000", "FFFFFF", "ffffff", // not characters
		"0", "D800", "DC00", // already rejected, kept as controls
	}
	templates := []string{
		`"\u{%s}"`,                     // string literal
		`$.a ? (@ == "x\u{%s}y")`,      // string in a filter
		`$."\u{%s}"`,                   // quoted key
		`$.\u{%s}`,                     // escape in a bare identifier
		`$.a\u{%s}b`,                   // ... in the middle of one
		`$"\u{%s}"`,                    // quoted variable
		`$ ? (@ starts with "\u{%s}")`, // starts with
		`$ ? (@ like_regex "\u{%s}")`,  // pattern
	}

	bad := 0
	for _, tmpl := range templates {
		for _, code := range codes {
			src := fmt.Sprintf(tmpl, code)
			ast, err := Parse(src)
			accepted := err == nil && ast != nil
			if accepted != valid(code) {
				bad++
				got := fmt.Sprintf("error %v", err)
				if accepted {
					got = fmt.Sprintf("accepted as %s", ast.String())
				}
				t.Errorf("Parse(%q): %s; want accepted=%v", src, got, valid(code))
			}
		}
	}
	if bad > 0 {
		t.Fatalf("%d mismatches. Property C04: \"Inputs the documented syntax forbids are rejected: ... malformed numbers, "+
			"escapes, strings and comments ...\". \\u{110000}..\\u{FFFFFF} name no Unicode character (the code space ends at "+
			"U+10FFFF), so the escape is malformed and Parse must return a parser.ErrParse error; instead the lexer writes "+
			"U+FFFD REPLACEMENT CHARACTER into the string, so e.g. \"\\u{110000}\" == \"\\u{FFFFFF}\" == \"\\uFFFD\".", bad)
	}
}
