// Belongs in: path/parser  (package parser), e.g. as path/parser/zz_demo_test.go
// Run with:   go test -vet=off -count=1 -run 'ZZ' ./path/parser/
//
// Defect: a Private Use Area code point U+E002..U+E031 written literally in
// the path text (outside a string or identifier) is taken by the parser to be
// the keyword or literal whose goyacc token NUMBER happens to equal that code
// point. Writing <U+XXXX> for the literal character: "$[0 <U+E002> 1]" parses
// as "$[0 to 1]", "<U+E018> $" as "strict $", "$.a.<U+E020>()" as "$.a.size()",
// "$.**{<U+E00C>}" as "$.**{0}", and so on for all of U+E002..U+E031.
package parser

import (
	"fmt"
	"testing"
)

func TestZZPrivateUseCodePointsAreNotKeywords(t *testing.T) {
	// Every template is a path that is valid with a suitable keyword in the
	// hole. No single Private Use character is a keyword, operator, number,
	// string or identifier of the documented jsonpath syntax (identifiers
	// follow ID_Start/ID_Continue; category Co is in neither), so Parse must
	// reject every instance.
	templates := []string{
		"%c",                       // a path that consists of the character only
		"%c $",                     // mode position (strict / lax)
		"$[0 %c 1]",                // 'to'
		"$.a == %c",                // null / true / false / string / variable
		"$.a %c 1",                 // comparison and boolean operators
		"$.**{%c}",                 // integer / last
		"$.a.%c()",                 // method names
		"$ ? (@ %c \"a\")",         // like_regex
		"$ ? (%c (@.a))",           // exists
		"$ ? ((@ > 1) %c unknown)", // is
	}

	var failures []string
	for _, tmpl := range templates {
		for r := rune(0xE000); r <= 0xF8FF; r++ {
			src := fmt.Sprintf(tmpl, r)
			var (
				got      string
				accepted bool
			)
			func() {
				defer func() {
					if p := recover(); p != nil {
						failures = append(failures, fmt.Sprintf("Parse(%q) panicked: %v", src, p))
					}
				}()
				ast, err := Parse(src)
				if err == nil && ast != nil {
					accepted, got = true, ast.String()
				}
			}()
			if accepted {
				failures = append(failures, fmt.Sprintf("Parse(%q) accepted, parsed as %q", src, got))
			}
		}
	}

	if len(failures) > 0 {
		for _, f := range failures {
			t.Log(f)
		}
		t.Fatalf("%d inputs containing a bare Private Use code point were accepted. "+
			"Expected a parse error for each: property C04 says \"Inputs the documented syntax forbids are rejected\" "+
			"and that Parse returns \"a nil path and an error wrapping path.ErrPath and parser.ErrParse\" for them. "+
			"U+E002 is not the keyword 'to', U+E018 is not 'strict', U+E020 is not 'size', etc.; the lexer hands the "+
			"raw code point to goyacc, whose private token numbers start at 57344 = 0xE000.", len(failures))
	}
}
