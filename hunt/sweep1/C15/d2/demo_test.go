// Belongs in: path/exec (package exec). Copy to path/exec/zz_d2_demo_test.go and run
//   go test -vet=off -count=1 -run 'ZZ' ./path/exec
package exec

import (
	"context"
	"encoding/json"
	"testing"

	"github.com/theory/sqljson/path/parser"
)

// Property C15: "In strict mode, member accessors following .** skip the nodes
// they do not apply to instead of failing." All accessors that follow .**
// honour this (.key, .*, [*], .size(), even an out-of-range [5] on an array)
// except the array subscript accessor applied to a node that is not an array:
// it fails the whole query (verbose) or silently truncates the result (silent).
func TestZZD2SubscriptAfterAnyFailsOnNonArrays(t *testing.T) {
	ctx := context.Background()
	var doc any
	if err := json.Unmarshal([]byte(`[[1],[2]]`), &doc); err != nil {
		t.Fatal(err)
	}
	show := func(v any) string { b, _ := json.Marshal(v); return string(b) }

	// Nodes visited by .**: [[1],[2]] , [1] , 1 , [2] , 2. [0] applies to the
	// three arrays and must skip the scalars 1 and 2.
	const want = `[[1],1,2]`

	p, err := parser.Parse("strict $.**[0]")
	if err != nil {
		t.Fatal(err)
	}
	got, err := Query(ctx, p, doc)
	if err != nil || show(got) != want {
		t.Errorf("strict $.**[0] on [[1],[2]]: got %s, err=%v; want %s and no error: "+
			"C15 \"In strict mode, member accessors following .** skip the nodes they do not apply to instead of failing\" "+
			"(the sibling accessors [*], .*, .key and an out-of-range subscript such as $.**[5] are all skipped without error)",
			show(got), err, want)
	}

	// In silent mode the failure is swallowed and the result is silently cut
	// short at the first scalar visited: 2 is never reached.
	got, err = Query(ctx, p, doc, WithSilent())
	if err != nil || show(got) != want {
		t.Errorf("strict $.**[0] on [[1],[2]] WithSilent: got %s, err=%v; want %s: "+
			".** must visit \"every node whose depth ... lies in a..b ... each exactly once\" and the accessor that follows "+
			"must \"skip the nodes [it does] not apply to instead of failing\"; here the traversal stops at the first scalar",
			show(got), err, want)
	}

	// Sibling accessors, for comparison: these already behave as the property says.
	for src, w := range map[string]string{
		"strict $.**[*]": `[[1],[2],1,2]`,
		"strict $.**[5]": `[]`, // out of range on arrays is skipped ... but only if no scalar is visited
	} {
		p, err := parser.Parse(src)
		if err != nil {
			t.Fatal(err)
		}
		var d any = doc
		if src == "strict $.**[5]" {
			d = []any{[]any{}} // arrays only, no scalars
		}
		got, err := Query(ctx, p, d)
		if err != nil || show(got) != w {
			t.Errorf("control %s: got %s err=%v want %s", src, show(got), err, w)
		}
	}
}
