// Belongs in: path/exec (package exec). Copy to path/exec/zz_d1_demo_test.go and run
//   go test -vet=off -count=1 -run 'ZZ' ./path/exec
package exec

import (
	"context"
	"encoding/json"
	"testing"

	"github.com/theory/sqljson/path/parser"
)

// Property C15: ".**{a to b} [returns] every node whose depth below the
// current item lies in a..b" and ".**{k} equals k applications of 'any
// child'". A numeric level >= 4294967295 (math.MaxUint32) is silently turned
// into the sentinel that encodes the keyword `last`, so `.**{4294967295}`
// becomes `.**{last}` and returns all scalar leaves of the document instead of
// the (necessarily empty) set of nodes at depth 4294967295.
func TestZZD1HugeLevelBecomesLast(t *testing.T) {
	ctx := context.Background()
	var doc any
	if err := json.Unmarshal([]byte(`{"a":[1,{"b":2}]}`), &doc); err != nil {
		t.Fatal(err)
	}

	for _, src := range []string{
		"$.**{4294967295}",
		"$.**{4294967296}",
		"$.**{4294967295 to 4294967295}",
		"$.**{4294967295 to last}",
		"$.**{99999999999999999999}",
		"strict $.**{4294967295}",
	} {
		p, err := parser.Parse(src)
		if err != nil {
			// Rejecting the level at parse time would be an acceptable repair.
			t.Logf("%s: rejected by the parser (%v): fine", src, err)
			continue
		}
		got, err := Query(ctx, p, doc)
		if err != nil {
			t.Errorf("%s: unexpected error %v", src, err)
			continue
		}
		if len(got) != 0 {
			b, _ := json.Marshal(got)
			t.Errorf("%s on {\"a\":[1,{\"b\":2}]} returned %s (path re-prints as %q); "+
				"expected no items: C15 says \".**{a to b} [selects] every node whose depth below the current item lies in a..b\" "+
				"and \".**{k} equals k applications of 'any child'\"; the document has no node at depth >= 4294967295. "+
				"Only the keyword `last` may select the scalar leaves / mean unbounded",
				src, b, p.String())
		}
	}

	// Control: one below the boundary behaves correctly.
	p, err := parser.Parse("$.**{4294967294}")
	if err != nil {
		t.Fatal(err)
	}
	if got, err := Query(ctx, p, doc); err != nil || len(got) != 0 {
		t.Errorf("control $.**{4294967294}: got %v, %v; want empty", got, err)
	}
}
