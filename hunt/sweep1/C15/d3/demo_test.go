// Belongs in: path/exec (package exec). Copy to path/exec/zz_d3_demo_test.go and run
//   go test -vet=off -count=1 -run 'ZZ' ./path/exec
package exec

import (
	"context"
	"fmt"
	"testing"

	"github.com/theory/sqljson/path/parser"
)

// Property C15: ".**{last} selects the scalar leaves below the item". An empty
// array is not a scalar. An empty array given as a nil []any (what `var a
// []any` or append-based builders produce) is recognised as an array by every
// other accessor (.type() = "array", .size() = 0, [*] yields nothing), but the
// traversal shared by .** treats it as a scalar leaf, so .**{last} returns it,
// while it does not return the empty array []any{} nor empty objects.
func TestZZD3NilEmptyArrayIsALeaf(t *testing.T) {
	ctx := context.Background()
	var nilArr []any // an empty JSON array
	doc := []any{nilArr, []any{}, map[string]any{}, map[string]any(nil), int64(1)}

	q := func(src string, d any) []any {
		t.Helper()
		p, err := parser.Parse(src)
		if err != nil {
			t.Fatal(err)
		}
		got, err := Query(ctx, p, d)
		if err != nil {
			t.Fatalf("%s: %v", src, err)
		}
		return got
	}

	// The library itself says element 0 is an array of size 0.
	if got := q("$[0].type()", doc); len(got) != 1 || got[0] != "array" {
		t.Fatalf("precondition: $[0].type() = %v", got)
	}
	if got := q("strict $[0].size()", doc); len(got) != 1 || got[0] != int64(0) {
		t.Fatalf("precondition: $[0].size() = %v", got)
	}

	for _, src := range []string{"$.**{last}", "strict $.**{last}"} {
		got := q(src, doc)
		desc := make([]string, len(got))
		for i, v := range got {
			desc[i] = fmt.Sprintf("%T(%v)", v, v)
		}
		if len(got) != 1 || got[0] != int64(1) {
			t.Errorf("%s on [<nil []any>, [], {}, <nil map>, 1] returned %v; expected exactly [int64(1)]: "+
				"C15 \".**{last} selects the scalar leaves below the item\"; an empty array is not a scalar, and the "+
				"other empty containers ([]any{}, map[string]any{}, nil map) are correctly left out",
				src, desc)
		}
	}
}
