// Belongs in: path/exec (package exec) of theory/sqljson, e.g.
//   cp demo_test.go /tmp/mut/C08/path/exec/zz_d1_demo_test.go
//   go test -vet=off -count=1 -run 'ZZ' ./path/exec/
package exec

import (
	"context"
	"errors"
	"testing"

	"github.com/theory/sqljson/path/parser"
)

// Property C08: "Non-suppressible errors - unknown variable, casts that need a
// time zone, unsupported datetime template, invalid decimal precision or scale,
// cancellation - are returned unchanged".
//
// A .decimal() precision or scale that does not even fit in an int32 is as
// invalid as one can be, yet WithSilent swallows the error, while the very
// next smaller precision (2147483647) is reported with and without WithSilent.
func TestZZDecimalPrecisionBeyondInt32IsSuppressed(t *testing.T) {
	ctx := context.Background()
	doc := int64(1)

	for _, text := range []string{
		`$.decimal(2147483647)`,    // control: hard error today, silent or not
		`$.decimal(2147483648)`,    // precision out of int32
		`$.decimal(5,2147483648)`,  // scale out of int32
		`$.decimal(5,-2147483649)`, // scale out of int32
		`strict $ ? (@ > 0).decimal(2147483648)`,
	} {
		p, err := parser.Parse(text)
		if err != nil {
			t.Fatalf("%s: %v", text, err)
		}

		_, verboseErr := Query(ctx, p, doc)
		if verboseErr == nil {
			t.Fatalf("%s: the non-silent run must fail, precision/scale is invalid", text)
		}

		type run struct {
			name string
			err  error
		}
		_, qe := Query(ctx, p, doc, WithSilent())
		_, fe := First(ctx, p, doc, WithSilent())
		_, ee := Exists(ctx, p, doc, WithSilent())
		_, me := Match(ctx, p, doc, WithSilent())
		for _, r := range []run{{"Query", qe}, {"First", fe}, {"Exists", ee}, {"Match", me}} {
			if r.err == nil || errors.Is(r.err, NULL) || errors.Is(r.err, ErrVerbose) || !errors.Is(r.err, ErrExecution) {
				t.Errorf("%s(%q, 1, WithSilent()) returned error %v; expected a non-suppressible exec.ErrExecution "+
					"(not ErrVerbose) error like the non-silent run's (%v), because C08 says: \"Non-suppressible errors - "+
					"..., invalid decimal precision or scale, ... - are returned unchanged\"",
					r.name, text, r.err, verboseErr)
			}
		}
		if errors.Is(verboseErr, ErrVerbose) {
			t.Errorf("%q: the non-silent error %q is classified as suppressible (wraps ErrVerbose); "+
				"an invalid decimal precision or scale must be non-suppressible", text, verboseErr)
		}
	}
}
