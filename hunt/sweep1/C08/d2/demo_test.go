// Belongs in: path/exec (package exec) of theory/sqljson, e.g.
//   cp demo_test.go /tmp/mut/C08/path/exec/zz_d2_demo_test.go
//   go test -vet=off -count=1 -run 'ZZ' ./path/exec/
package exec

import (
	"context"
	"reflect"
	"testing"

	"github.com/theory/sqljson/path/parser"
)

// Property C08: "an execution that succeeds without WithSilent returns the
// identical result with it".
//
// The id of a .keyvalue() item whose object is reached through a previously
// generated .keyvalue() object (".keyvalue().value.keyvalue()") is computed as
// the distance between two unrelated heap addresses: the freshly allocated
// generated object (the "base object") and the nested object of the document.
// The generated object is allocated anew by every execution, so two executions
// over the very same path, document and options return different ids, and the
// silent run does not return the result of the non-silent run. No map order is
// involved: every object here has a single key.
func TestZZKeyValueIDsDifferBetweenSilentAndVerboseRuns(t *testing.T) {
	ctx := context.Background()
	doc := map[string]any{"a": map[string]any{"b": int64(1)}}

	for _, text := range []string{
		`$.keyvalue().value.keyvalue().id`,
		`strict $.keyvalue().value.keyvalue()`,
		`$.keyvalue() ? (@.key == "a").value.keyvalue().id`,
	} {
		p, err := parser.Parse(text)
		if err != nil {
			t.Fatalf("%s: %v", text, err)
		}
		for i := 0; i < 10; i++ {
			verbose, verr := Query(ctx, p, doc)
			silent, serr := Query(ctx, p, doc, WithSilent())
			if verr != nil || serr != nil {
				t.Fatalf("%s: unexpected errors %v / %v", text, verr, serr)
			}
			if !reflect.DeepEqual(verbose, silent) {
				t.Errorf("Query(%q) over the same document: without WithSilent %v, with WithSilent %v; expected identical "+
					"results because C08 says: \"an execution that succeeds without WithSilent returns the identical "+
					"result with it\" (the ids depend on the heap address of a temporary object)", text, verbose, silent)
				break
			}
		}
	}
}
