// Belongs in: path/types  (package types_test; e.g. path/types/zz_demo_d1_test.go)
// Run:  go test -vet=off -count=1 -run 'ZZ' ./path/types
//
// Property C18: "For every Date, Time, TimeTZ, Timestamp and TimestampTZ value
// with a year in 1..9999 and whole-minute zone offset ...
// json.Unmarshal(json.Marshal(v)) returns an equal value".
//
// The five types embed time.Time and declare MarshalJSON (and String) on the
// POINTER receiver only. A value that is not addressable when encoding/json
// reaches it (a map element, a field of a struct passed by value, an `any`
// holding the struct value, or the bare value itself) does not have the
// type's own MarshalJSON in its method set; what it has instead is the
// promoted time.Time.MarshalJSON, which writes RFC 3339
// ("2023-08-15T00:00:00Z"). The type's own UnmarshalJSON rejects that text, so
// the round trip ends in an error instead of an equal value.
package types_test

import (
	"context"
	"encoding/json"
	"testing"
	"time"

	"github.com/theory/sqljson/path/types"
)

func TestZZValueJSONRoundTrip(t *testing.T) {
	src := time.Date(2023, 8, 15, 12, 34, 56, 789000000, time.FixedZone("", 5*3600+30*60))
	ctx := context.Background()

	const clause = `C18: "json.Unmarshal(json.Marshal(v)) returns an equal value" for every Date/Time/TimeTZ/Timestamp/TimestampTZ value`

	// --- Date ---------------------------------------------------------------
	{
		v := *types.NewDate(src)
		want := `"` + v.String() + `"` // what (*Date).MarshalJSON writes
		in := map[string]types.Date{"k": v}
		b, err := json.Marshal(in)
		if err != nil {
			t.Fatalf("Date: marshal: %v", err)
		}
		if string(b) != `{"k":`+want+`}` {
			t.Errorf("Date: json.Marshal(map[string]types.Date) = %s, expected {\"k\":%s}: "+
				"the JSON of a Date must be its String() text whichever way the value is held (%s)", b, want, clause)
		}
		var out map[string]types.Date
		if err := json.Unmarshal(b, &out); err != nil {
			t.Errorf("Date: json.Unmarshal(json.Marshal(v)) failed: %v; expected an equal value (%s)", err, clause)
		} else if got := out["k"]; !got.Time.Equal(v.Time) {
			t.Errorf("Date: round trip gave %v, expected %v (%s)", &got, &v, clause)
		}
	}

	// --- Time ---------------------------------------------------------------
	{
		v := *types.NewTime(src)
		b, _ := json.Marshal(map[string]types.Time{"k": v})
		var out map[string]types.Time
		if err := json.Unmarshal(b, &out); err != nil {
			t.Errorf("Time: json.Unmarshal(json.Marshal(v)) on %s failed: %v; expected an equal value (%s)", b, err, clause)
		} else if got := out["k"]; !got.Time.Equal(v.Time) {
			t.Errorf("Time: round trip gave %v, expected %v (%s)", &got, &v, clause)
		}
	}

	// --- TimeTZ -------------------------------------------------------------
	{
		v := *types.NewTimeTZ(src)
		b, _ := json.Marshal(map[string]types.TimeTZ{"k": v})
		var out map[string]types.TimeTZ
		if err := json.Unmarshal(b, &out); err != nil {
			t.Errorf("TimeTZ: json.Unmarshal(json.Marshal(v)) on %s failed: %v; expected an equal value (%s)", b, err, clause)
		} else if got := out["k"]; !got.Time.Equal(v.Time) || got.String() != v.String() {
			t.Errorf("TimeTZ: round trip gave %v, expected %v (%s)", &got, &v, clause)
		}
	}

	// --- Timestamp ----------------------------------------------------------
	{
		v := *types.NewTimestamp(src)
		b, _ := json.Marshal(map[string]types.Timestamp{"k": v})
		var out map[string]types.Timestamp
		if err := json.Unmarshal(b, &out); err != nil {
			t.Errorf("Timestamp: json.Unmarshal(json.Marshal(v)) on %s failed: %v; expected an equal value (%s)", b, err, clause)
		} else if got := out["k"]; !got.Time.Equal(v.Time) {
			t.Errorf("Timestamp: round trip gave %v, expected %v (%s)", &got, &v, clause)
		}
	}

	// --- TimestampTZ: struct passed by value --------------------------------
	// (This one passes on the unmodified code, but only by coincidence: for a
	// non-zero offset RFC 3339 happens to be the same text as the type's own
	// layout. It is kept as a control.)
	{
		type row struct {
			At types.TimestampTZ `json:"at"`
		}
		v := row{At: *types.NewTimestampTZ(ctx, src)}
		want := `{"at":"` + v.At.String() + `"}`
		b, _ := json.Marshal(v) // by value: the field is not addressable
		if string(b) != want {
			t.Errorf("TimestampTZ: json.Marshal(struct by value) = %s, expected %s "+
				"(json.Marshal(&struct) does give that) (%s)", b, want, clause)
		}
		var out row
		if err := json.Unmarshal(b, &out); err != nil {
			t.Errorf("TimestampTZ: json.Unmarshal(json.Marshal(v)) on %s failed: %v; expected an equal value (%s)", b, err, clause)
		} else if !out.At.Time.Equal(v.At.Time) || out.At.String() != v.At.String() {
			t.Errorf("TimestampTZ: round trip gave %v, expected %v (%s)", &out.At, &v.At, clause)
		}
	}
}
