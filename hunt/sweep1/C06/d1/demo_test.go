// Belongs in directory path/exec (package exec) of theory/sqljson.
// Run: go test -vet=off -count=1 -run 'ZZ' ./path/exec
package exec

import (
	"context"
	"reflect"
	"testing"

	"github.com/theory/sqljson/path/parser"
)

// Property C06: "For the same path, document and options, First returns the
// first item of Query's result (nil if empty; object-member order aside) with
// the same error".
//
// The "id" that .keyvalue() puts into its result objects is derived from the
// distance between two Go heap addresses. When the base object is an object
// that .keyvalue() itself generated (a fresh allocation on every call), the id
// of a nested .keyvalue() differs from one evaluation to the next, so First
// does not return the first item of Query's result, although path, document
// (the very same Go value) and options are the same and the document holds
// single-member objects only (no member-order freedom).
func TestZZKeyvalueIDFirstVersusQuery(t *testing.T) {
	ctx := context.Background()
	p, err := parser.Parse(`$.keyvalue().value.keyvalue()`)
	if err != nil {
		t.Fatal(err)
	}
	doc := map[string]any{"a": map[string]any{"b": int64(1)}}

	var keep []any // keep every result alive so that no address can be reused
	for i := 0; i < 5; i++ {
		q, qerr := Query(ctx, p, doc)
		f, ferr := First(ctx, p, doc)
		keep = append(keep, q, f)
		if qerr != nil || ferr != nil {
			t.Fatalf("unexpected errors: Query %v, First %v", qerr, ferr)
		}
		if len(q) != 1 {
			t.Fatalf("Query returned %d items, expected 1: %v", len(q), q)
		}
		if !reflect.DeepEqual(q[0], f) {
			t.Fatalf("C06 violated: \"First returns the first item of Query's result\" for the same path, "+
				"document and options, but\n  Query(%s)[0] = %v\n  First(%s)    = %v\n"+
				"the id of the nested .keyvalue() object is an offset from the address of a freshly "+
				"allocated intermediate object, so it changes with every evaluation",
				p, q[0], p, f)
		}
	}
	_ = keep
}
