// Belongs in directory path/exec (package exec) of theory/sqljson.
// Run: go test -vet=off -count=1 -run 'ZZ' ./path/exec
package exec

import (
	"context"
	"testing"

	"github.com/theory/sqljson/path/parser"
)

// Property C06: "when Query succeeds Exists returns whether its result is
// non-empty" (for all parsed paths x documents x {silent, verbose} x {lax,
// strict}; in particular for paths whose evaluation raises an error after ...
// producing items).
//
// In strict mode with WithSilent an error that is raised after items have
// been produced is suppressed; Query then succeeds (nil error) and returns the
// items collected so far, whereas Exists, which re-collects the whole result
// to rule out errors, answers (false, NULL) for the same path, document and
// options. Query says "there is an item", Exists says "unknown".
func TestZZStrictSilentErrorAfterItems(t *testing.T) {
	ctx := context.Background()
	for _, tc := range []struct {
		path string
		doc  any
	}{
		{`strict $[*].a`, []any{map[string]any{"a": int64(1)}, int64(2)}},
		{`strict $[*].number()`, []any{int64(1), "x"}},
		{`strict $[0, 5]`, []any{int64(1)}},
	} {
		p, err := parser.Parse(tc.path)
		if err != nil {
			t.Fatal(err)
		}
		q, qerr := Query(ctx, p, tc.doc, WithSilent())
		f, ferr := First(ctx, p, tc.doc, WithSilent())
		e, eerr := Exists(ctx, p, tc.doc, WithSilent())
		if qerr != nil {
			continue // Query did not succeed: nothing to compare
		}
		if e != (len(q) > 0) || eerr != nil {
			t.Errorf("C06 violated: \"when Query succeeds Exists returns whether its result is non-empty\": "+
				"path %q doc %v silent: Query = (%v, %v), First = (%v, %v) but Exists = (%v, %v); expected (%v, <nil>)",
				tc.path, tc.doc, q, qerr, f, ferr, e, eerr, len(q) > 0)
		}
	}
}
