// Belongs in directory path/exec (package exec) of theory/sqljson.
// Run: go test -vet=off -count=1 -run 'ZZ' ./path/exec
package exec

import (
	"context"
	"encoding/json"
	"testing"

	"github.com/theory/sqljson/path/parser"
)

// Property C06: "Exists never reports true when a complete evaluation yields
// no item".
//
// A json.Number that fits neither int64 nor float64 (1e400) is rejected by
// unary minus and plus when the result is collected (Query, First: "operand of
// unary jsonpath operator - is not a numeric value", no item), but the
// early-exit branch for json.Number in execUnaryMathExpr answers statusOK
// before the number is cast, so lax Exists reports true. This is the
// json.Number sibling of the (already recorded) non-numeric operand case; it
// is a separate branch of the switch and is not repaired by repairing the
// default branch.
func TestZZUnarySignOnUncastableJSONNumber(t *testing.T) {
	ctx := context.Background()
	for _, tc := range []struct {
		path string
		doc  any
	}{
		{`-$`, json.Number("1e400")},
		{`+$`, json.Number("1e400")},
		{`-$[*]`, []any{json.Number("1e400")}},
		{`lax -$.a`, map[string]any{"a": json.Number("-1e999")}},
	} {
		p, err := parser.Parse(tc.path)
		if err != nil {
			t.Fatal(err)
		}
		for _, silent := range []bool{false, true} {
			var opts []Option
			if silent {
				opts = append(opts, WithSilent())
			}
			q, qerr := Query(ctx, p, tc.doc, opts...)
			// complete evaluation, items collected even if an error follows
			vals, _ := newExec(p, opts...).execute(ctx, tc.doc)
			e, eerr := Exists(ctx, p, tc.doc, opts...)
			if e && len(vals.list) == 0 {
				t.Errorf("C06 violated: \"Exists never reports true when a complete evaluation yields no item\": "+
					"path %q doc %v silent=%v: Exists = (%v, %v) but the complete evaluation produced no item "+
					"(Query = %v, %v)", tc.path, tc.doc, silent, e, eerr, q, qerr)
			}
		}
	}
}
