// Place this file in path/ of the sqljson module (package path_test), i.e.
// /tmp/mut/C17/path/zz_d2_demo_test.go, and run
//
//	go test -vet=off -count=1 -run 'ZZ' ./path/
//
// Defect: with a named context zone, a date or timestamp whose wall clock
// falls into a daylight-saving gap is converted to timestamptz with
// time.Date(), which moves it one hour BACKWARDS (western zones) or FORWARDS
// (eastern zones) across other, valid wall-clock values. The zone-less to
// zone-aware conversion is therefore not monotone and cross-type comparison
// stops being transitive; a date even lands on the previous day.
package path_test

import (
	"context"
	"testing"
	"time"
	_ "time/tzdata" // do not depend on the zoneinfo of the machine

	"github.com/theory/sqljson/path"
	"github.com/theory/sqljson/path/exec"
	"github.com/theory/sqljson/path/types"
)

const zzD2Clause = `C17: "With WithTZ such casts and comparisons use the time zone carried by the ` +
	`context ...; comparison is antisymmetric and transitive" (quantifier: "context zones {UTC, fixed ` +
	`offsets, named zones for date/timestamp casts}")`

func zzD2Ctx(t *testing.T, zone string) context.Context {
	t.Helper()
	loc, err := time.LoadLocation(zone)
	if err != nil {
		t.Fatalf("cannot load %s: %v", zone, err)
	}
	return types.ContextWithTZ(context.Background(), loc)
}

func zzD2Bool(t *testing.T, ctx context.Context, p string) bool {
	t.Helper()
	r, err := path.MustParse(p).First(ctx, nil, exec.WithTZ())
	if err != nil {
		t.Fatalf("%s: unexpected error %v", p, err)
	}
	b, ok := r.(bool)
	if !ok {
		t.Fatalf("%s: expected true or false, got %v", p, r)
	}
	return b
}

func TestZZD2TransitivityNewYork(t *testing.T) {
	ctx := zzD2Ctx(t, "America/New_York")
	// 2020-03-08 02:00 - 03:00 does not exist in New York.
	const (
		a = `"2020-03-08T01:45:00".datetime()`       // timestamp
		b = `"2020-03-08T02:30:00".datetime()`       // timestamp (in the gap)
		c = `"2020-03-08T01:40:00-05:00".datetime()` // timestamptz
	)
	ab := zzD2Bool(t, ctx, a+" < "+b)
	bc := zzD2Bool(t, ctx, b+" < "+c)
	ac := zzD2Bool(t, ctx, a+" < "+c)
	t.Logf("a<b=%v b<c=%v a<c=%v", ab, bc, ac)
	if ab && bc && !ac {
		t.Errorf("context zone America/New_York, WithTZ: a = %s, b = %s, c = %s: a < b is %v and b < c is %v "+
			"but a < c is %v; expected a < c to be true because comparison must be transitive. Clause: %s",
			a, b, c, ab, bc, ac, zzD2Clause)
	}
	// equality is not transitive either: 01:30 and 02:30 both equal 01:30-05
	e1 := zzD2Bool(t, ctx, `"2020-03-08T01:30:00".datetime() == "2020-03-08T01:30:00-05:00".datetime()`)
	e2 := zzD2Bool(t, ctx, `"2020-03-08T02:30:00".datetime() == "2020-03-08T01:30:00-05:00".datetime()`)
	e3 := zzD2Bool(t, ctx, `"2020-03-08T01:30:00".datetime() == "2020-03-08T02:30:00".datetime()`)
	if e1 && e2 && !e3 {
		t.Errorf("context zone America/New_York: timestamps 01:30:00 and 02:30:00 of 2020-03-08 are both == "+
			"2020-03-08T01:30:00-05:00 but not == each other; expected a transitive comparison. Clause: %s", zzD2Clause)
	}
}

func TestZZD2TransitivityBerlin(t *testing.T) {
	ctx := zzD2Ctx(t, "Europe/Berlin")
	// 2020-03-29 02:00 - 03:00 does not exist in Berlin.
	const (
		a = `"2020-03-29T02:30:00".datetime()`       // timestamp (in the gap)
		b = `"2020-03-29T03:15:00".datetime()`       // timestamp
		c = `"2020-03-29T03:20:00+02:00".datetime()` // timestamptz
	)
	ab := zzD2Bool(t, ctx, a+" < "+b)
	bc := zzD2Bool(t, ctx, b+" < "+c)
	ac := zzD2Bool(t, ctx, a+" < "+c)
	if ab && bc && !ac {
		t.Errorf("context zone Europe/Berlin, WithTZ: a = %s, b = %s, c = %s: a < b is %v and b < c is %v "+
			"but a < c is %v; expected a < c to be true because comparison must be transitive. Clause: %s",
			a, b, c, ab, bc, ac, zzD2Clause)
	}
}

func TestZZD2DateMovesToPreviousDayHavana(t *testing.T) {
	ctx := zzD2Ctx(t, "America/Havana")
	// Clocks in Havana went from 2020-03-08 00:00 straight to 01:00.
	r, err := path.MustParse(`"2020-03-08".timestamp_tz()`).First(ctx, nil, exec.WithTZ())
	if err != nil {
		t.Fatal(err)
	}
	back := r.(*types.TimestampTZ).ToDate(ctx).String()
	if back != "2020-03-08" {
		t.Errorf(`context zone America/Havana: "2020-03-08".timestamp_tz() = %v, and the date of that value in `+
			`the same context zone is %s; expected a timestamptz on 2020-03-08 (PostgreSQL answers `+
			`2020-03-08T01:00:00-04:00, the first instant of that day). Clause: %s`, r, back, zzD2Clause)
	}
	// consequence for comparison: the date 2020-03-08 is before an instant of March 7th, 23:30 local time,
	// and after the timestamp 2020-03-07T23:30:00, which in turn is after 2020-03-07T23:15:00-05:00.
	ab := zzD2Bool(t, ctx, `"2020-03-07T23:30:00".datetime() < "2020-03-08".datetime()`)
	bc := zzD2Bool(t, ctx, `"2020-03-08".datetime() < "2020-03-07T23:15:00-05:00".datetime()`)
	ac := zzD2Bool(t, ctx, `"2020-03-07T23:30:00".datetime() < "2020-03-07T23:15:00-05:00".datetime()`)
	if ab && bc && !ac {
		t.Errorf("context zone America/Havana: timestamp 2020-03-07T23:30:00 < date 2020-03-08 and date 2020-03-08 < "+
			"2020-03-07T23:15:00-05:00, but timestamp 2020-03-07T23:30:00 < 2020-03-07T23:15:00-05:00 is false; "+
			"expected a transitive comparison. Clause: %s", zzD2Clause)
	}
}
