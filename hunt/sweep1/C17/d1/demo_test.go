// Place this file in path/ of the sqljson module (package path_test), i.e.
// /tmp/mut/C17/path/zz_d1_demo_test.go, and run
//
//	go test -vet=off -count=1 -run 'ZZ' ./path/
//
// Defect: rounding the fractional seconds of a time of day to a precision
// wraps around midnight. "23:59:59.5".time(0) is 00:00:00, which is 24 hours
// away from the value it is supposed to be the rounding of, and orders BEFORE
// every other time of the day.
package path_test

import (
	"context"
	"fmt"
	"testing"
	"time"

	"github.com/theory/sqljson/path"
	"github.com/theory/sqljson/path/exec"
	"github.com/theory/sqljson/path/types"
)

const zzD1Clause = `C17: "... return the most specific type or the requested cast with ` +
	`fractional seconds rounded to the given precision (capped at 6)"`

func zzD1First(t *testing.T, p string, doc any) any {
	t.Helper()
	pp, err := path.Parse(p)
	if err != nil {
		t.Fatalf("parse %s: %v", p, err)
	}
	r, err := pp.First(context.Background(), doc, exec.WithTZ())
	if err != nil {
		t.Fatalf("%s on %v: unexpected error %v", p, doc, err)
	}
	return r
}

// Rounding to precision p moves a value by at most half a unit of that
// precision, so the rounded value can never be smaller than the same value
// with its fraction cut off.
func TestZZD1RoundedTimeNotBeforeTruncated(t *testing.T) {
	for _, tc := range []struct{ method, src, floor string }{
		{"time", "23:59:59.5", "23:59:59"},
		{"time", "23:59:59.9999996", "23:59:59.999999"},
		{"time_tz", "23:59:59.5+02", "23:59:59+02"},
		{"time_tz", "23:59:59.75-09:30", "23:59:59-09:30"},
		// timestamp cast to time: PostgreSQL casts, then rounds (24:00:00)
		{"time", "2020-12-31T23:59:59.5", "23:59:59"},
		{"time_tz", "2020-12-31T23:59:59.5+00", "23:59:59+00"},
	} {
		for p := 0; p <= 7; p++ {
			// only precisions that actually round the value up
			q := fmt.Sprintf(`$.a.%s(%d) >= $.b.%s()`, tc.method, p, tc.method)
			doc := map[string]any{"a": tc.src, "b": tc.floor}
			rounded := zzD1First(t, fmt.Sprintf(`$.a.%s(%d)`, tc.method, p), doc)
			got := zzD1First(t, q, doc)
			if got != true {
				t.Errorf("%s on %v = %v, expected true: %q.%s(%d) came out as %v, which is "+
					"EARLIER than the truncated value %q; a value rounded to a precision cannot be "+
					"smaller than the value with its fraction cut off (expected 24:00:00, as PostgreSQL "+
					"answers, or at least something not before %s). Clause: %s",
					q, doc, got, tc.src, tc.method, p, rounded, tc.floor, tc.floor, zzD1Clause)
			}
		}
	}
}

// The same thing measured on the values: |round(x) - x| <= half a unit.
func TestZZD1RoundingErrorBounded(t *testing.T) {
	for _, src := range []string{"23:59:59.5", "23:59:59.96", "23:59:59.9999995", "11:59:59.5", "00:00:00.5"} {
		exact := zzD1First(t, `$.time()`, src).(*types.Time).GoTime()
		for p := 0; p <= 6; p++ {
			r := zzD1First(t, fmt.Sprintf(`$.time(%d)`, p), src).(*types.Time)
			unit := time.Second
			for i := 0; i < p; i++ {
				unit /= 10
			}
			diff := r.GoTime().Sub(exact)
			if diff < 0 {
				diff = -diff
			}
			if diff > unit/2 {
				t.Errorf("%q.time(%d) = %v differs from the unrounded value by %v; rounding to %d "+
					"fractional digits may move a value by at most %v. Clause: %s",
					src, p, r, diff, p, unit/2, zzD1Clause)
			}
		}
	}
}
