// Place this file in path/ of the sqljson module (package path_test), i.e.
// /tmp/mut/C17/path/zz_d3_demo_test.go, and run
//
//	go test -vet=off -count=1 -run 'ZZ' ./path/
//
// Finding (interpretation dependent, see notes.md): the cap of six fractional
// digits only applies when a precision argument is written. Without an
// argument up to nine digits survive, so .time() is MORE precise than
// .time(7), .time(8), .time(9), which the cap turns into .time(6).
package path_test

import (
	"context"
	"fmt"
	"testing"

	"github.com/theory/sqljson/path"
	"github.com/theory/sqljson/path/exec"
	"github.com/theory/sqljson/path/types"
)

const zzD3Clause = `C17: "... return the most specific type or the requested cast with fractional ` +
	`seconds rounded to the given precision (capped at 6)"`

func TestZZD3AtMostSixFractionalDigits(t *testing.T) {
	ctx := context.Background()
	for _, tc := range []struct{ method, src string }{
		{"datetime", "12:00:00.1234567"},
		{"time", "12:00:00.1234567"},
		{"time_tz", "12:00:00.123456789+02"},
		{"timestamp", "2020-01-01T12:00:00.12345678"},
		{"timestamp_tz", "2020-01-01T12:00:00.123456789Z"},
		{"time", "2020-01-01T12:00:00.123456789"},
	} {
		r, err := path.MustParse(fmt.Sprintf(`$.%s()`, tc.method)).First(ctx, tc.src, exec.WithTZ())
		if err != nil {
			t.Fatalf("%s on %q: %v", tc.method, tc.src, err)
		}
		ns := r.(types.DateTime).GoTime().Nanosecond()
		if ns%1000 != 0 {
			t.Errorf("%q.%s() = %v keeps %d ns, that is more than 6 fractional digits; expected the value rounded "+
				"to at most 6 digits, the finest precision any of these methods can be asked for. Clause: %s",
				tc.src, tc.method, r, ns, zzD3Clause)
		}
		if tc.method == "datetime" {
			continue
		}
		// .m(7) is documented (and implemented) as .m(6); .m() cannot be finer than the finest precision.
		q := fmt.Sprintf(`$.%s(7) == $.%s()`, tc.method, tc.method)
		eq, err := path.MustParse(q).First(ctx, tc.src, exec.WithTZ())
		if err != nil {
			t.Fatalf("%s on %q: %v", q, tc.src, err)
		}
		if eq != true {
			t.Errorf("%s on %q = %v; expected true: a precision of 7 is capped at 6, the maximum, so asking for "+
				"the maximum precision and asking for none must give the same value. Clause: %s", q, tc.src, eq, zzD3Clause)
		}
	}
}
