// Belongs in directory path/ of the sqljson module (package path), e.g. as
// path/zz_demo_c05_d1_test.go. Run with:
//
//	go test -vet=off -count=1 -timeout 300s -run 'ZZ' ./path/
//
// Property C05: "For every parsed path, every JSON value of the documented Go
// types and every option set, Query, First, Exists, Match and ExistsOrMatch
// return without panicking; a non-nil error always wraps exec.ErrExecution".
//
// The executor recurses once per nesting level of the path (and, for .**, once
// per nesting level of the value) and has no depth guard: PostgreSQL's
// check_stack_depth() calls in executeItemOptUnwrapTarget, executeBoolItem and
// executeAnyItem were dropped in the port. A path that the parser accepts but
// that is nested deeply enough makes Query exhaust the goroutine stack. That is
// a runtime "fatal error: stack overflow": it cannot be recovered and kills
// the whole process, so the call neither returns a value nor an error.
//
// Because the failure is fatal, the query runs in a child process (this same
// test binary, re-executed); the parent asserts that the child's query
// returned.
package path

import (
	"context"
	"errors"
	"fmt"
	"os"
	osexec "os/exec"
	"strings"
	"testing"

	"github.com/theory/sqljson/path/exec"
)

const zzChildEnv = "ZZ_C05_D1_CHILD"

// TestZZDeepChild is the child half: it only does something when re-executed
// by TestZZDeepPathOrValueOverflowsStack.
func TestZZDeepChild(t *testing.T) {
	mode := os.Getenv(zzChildEnv)
	if mode == "" {
		t.Skip("helper for TestZZDeepPathOrValueOverflowsStack")
	}

	var (
		text  string
		value any = int64(1)
	)
	switch mode {
	case "minus":
		// 1.2 MB of path text: - - - ... - $
		text = strings.Repeat("-", 1_200_000) + "$"
	case "add":
		// 1 + 1 + 1 + ... (left-nested binary nodes)
		text = "1" + strings.Repeat(" + 1", 1_200_000)
	case "filter":
		text = "$" + strings.Repeat(" ? (exists(@", 1_000_000) + strings.Repeat("))", 1_000_000)
	case "value":
		// a short path over a deeply nested array [[[[...1...]]]]
		text = "$.** ? (@ == 2)"
		for i := 0; i < 3_000_000; i++ {
			value = []any{value}
		}
	}

	p, err := Parse(text)
	if err != nil {
		fmt.Println("ZZ-PARSE-ERROR")
		return
	}
	fmt.Println("ZZ-PARSED")
	_, err = p.Query(context.Background(), value)
	if err != nil && !errors.Is(err, exec.ErrExecution) {
		fmt.Println("ZZ-UNCLASSIFIED-ERROR")
		return
	}
	fmt.Println("ZZ-RETURNED")
}

func TestZZDeepPathOrValueOverflowsStack(t *testing.T) {
	if os.Getenv(zzChildEnv) != "" {
		t.Skip("child process")
	}
	for _, mode := range []string{"minus", "add", "filter", "value"} {
		t.Run(mode, func(t *testing.T) {
			cmd := osexec.Command(os.Args[0], "-test.run=^TestZZDeepChild$", "-test.timeout=200s")
			cmd.Env = append(os.Environ(), zzChildEnv+"="+mode)
			out, err := cmd.CombinedOutput()
			text := string(out)
			switch {
			case strings.Contains(text, "ZZ-PARSE-ERROR"):
				t.Skipf("the parser rejects this path, so C05 does not quantify over it")
			case strings.Contains(text, "ZZ-RETURNED"):
				return // Query returned a value or a classified error: fine.
			}
			if !strings.Contains(text, "ZZ-PARSED") {
				t.Fatalf("child did not get as far as executing the path: %v\n%.600s", err, text)
			}
			first := text
			if i := strings.Index(text, "runtime: goroutine stack exceeds"); i >= 0 {
				first = text[i:]
			}
			t.Errorf("C05 requires that for every parsed path Query \"return[s] without panicking\" "+
				"and that \"a non-nil error always wraps exec.ErrExecution\"; expected the query to "+
				"return results or an exec.ErrExecution error (PostgreSQL reports \"stack depth limit "+
				"exceeded\" here), but the parsed path killed the process (%v):\n%.300s", err, first)
		})
	}
}
