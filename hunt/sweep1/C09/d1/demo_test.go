// Place this file in /tmp/mut/C09/path/exec (package exec) and run
//
//	go test -vet=off -count=1 -run 'ZZ' ./path/exec/
//
// Property C09: "Evaluating a step never disturbs its context: ... after a
// nested subscript last again denotes the outer array ...".
package exec

import (
	"context"
	"reflect"
	"testing"

	"github.com/theory/sqljson/path/parser"
)

func TestZZLastAfterNestedSubscriptInContinuation(t *testing.T) {
	// $.arr has 3 elements, so inside $.arr[...] `last` is 2.
	// $.a has 2 elements, so inside $.a[...]   `last` is 1.
	doc := map[string]any{
		"arr": []any{"p", "q", "r"},
		"a":   []any{int64(2), int64(0)},
		"two": int64(2),
	}

	query := func(p string) ([]any, error) {
		ast, err := parser.Parse(p)
		if err != nil {
			t.Fatalf("parse %s: %v", p, err)
		}
		return Query(context.Background(), ast, doc)
	}

	for _, mode := range []string{"", "strict "} {
		// Control: no nested subscript. `last` is lexically inside $.arr[...]
		// only and denotes index 2 of $.arr. This works.
		control := mode + `$.arr[$.two ? (@ == last)]`
		got, err := query(control)
		if err != nil || !reflect.DeepEqual(got, []any{"r"}) {
			t.Fatalf("control %s: got %v, %v; want [r]", control, got, err)
		}

		// Same thing, but the number 2 is fetched with a nested subscript
		// $.a[0]. The filter (and the `last` in it) comes AFTER the nested
		// subscript [0] has been closed; the only subscript enclosing `last`
		// is $.arr[...]. So `last` must again denote the outer array $.arr
		// (index 2), the filter must pass 2, and the result must be "r".
		p := mode + `$.arr[$.a[0] ? (@ == last)]`
		got, err = query(p)
		if err != nil || !reflect.DeepEqual(got, []any{"r"}) {
			t.Errorf("%s\n  got  %v, err=%v\n  want [r], no error\n"+
				"  C09: \"after a nested subscript last again denotes the outer array\": "+
				"`last` here is enclosed only by $.arr[...] (3 elements, last == 2), but the "+
				"executor still has the size of $.a (2 elements, last == 1) bound while it runs "+
				"the filter that follows the nested subscript [0]",
				p, got, err)
		}

		// The same disturbance seen from the other side: `last == 1` is true
		// only for the inner array $.a; for the enclosing array $.arr it is
		// false, so the subscript expression selects nothing and the query
		// must not return any element of $.arr.
		p = mode + `$.arr[$.a[1] ? (last == 1) to last]`
		got, err = query(p)
		if err == nil && len(got) > 0 {
			t.Errorf("%s\n  got  %v, err=nil\n  want an error (subscript is not a single numeric value): "+
				"`last == 1` must be evaluated against the enclosing array $.arr (last == 2) and be false; "+
				"C09: \"after a nested subscript last again denotes the outer array\"",
				p, got)
		}
	}
}
