// Belongs in: path/exec (package exec), e.g. path/exec/zz_c13_d1_test.go
// Run with:   go test -vet=off -count=1 -run 'ZZ' ./path/exec/
package exec

import (
	"context"
	"math"
	"testing"

	"github.com/theory/sqljson/path/parser"
)

// Property C13: "Unary + and - apply to every numeric item of their operand
// ... When both operands are integers and the exact result fits in int64 the
// result is that integer ... otherwise it is the IEEE-754 double result".
//
// Unary plus is the identity. Applied to the smallest int64 it nevertheless
// hands on a float64, so the integer is no longer an integer and arithmetic
// that follows it stops being exact: (+x) + 1 is -9223372036854775808 (as a
// double) although x + 1 is the integer -9223372036854775807.
func TestZZC13D1UnaryPlusSmallestInteger(t *testing.T) {
	ctx := context.Background()
	query := func(t *testing.T, p string, doc any) any {
		t.Helper()
		a, err := parser.Parse(p)
		if err != nil {
			t.Fatalf("parse %q: %v", p, err)
		}
		res, err := Query(ctx, a, doc)
		if err != nil {
			t.Fatalf("query %q: %v", p, err)
		}
		if len(res) != 1 {
			t.Fatalf("query %q: expected one item, got %v", p, res)
		}
		return res[0]
	}

	minInt := int64(math.MinInt64)
	for _, doc := range []any{
		map[string]any{"a": minInt},
		map[string]any{"a": []any{minInt}}, // lax unwrapping
	} {
		// Sanity: without the unary plus the code is exact.
		if got := query(t, "$.a + 1", doc); got != int64(-9223372036854775807) {
			t.Fatalf("$.a + 1: got %v (%T), want int64 -9223372036854775807", got, got)
		}

		// 1. +x is x: "Unary + and - apply to every numeric item of their
		// operand"; the exact result of +x fits in int64, so it is "that
		// integer", not a double.
		if got := query(t, "+$.a", doc); got != minInt {
			t.Errorf("+$.a on %v: got %v (%T), want int64 %d: "+
				"C13 says unary + applies to the numeric item and "+
				"\"when ... the exact result fits in int64 the result is that integer\"; "+
				"+x is x and fits, yet a float64 is handed on",
				doc, got, got, minInt)
		}

		// 2. Visible consequence in the value, not only in the Go type.
		for _, tc := range []struct {
			path string
			want int64
		}{
			{"+$.a + 1", -9223372036854775807},
			{"(+$.a) + 1", -9223372036854775807},
			{"1 + +$.a", -9223372036854775807},
			{"(+$.a) / 3", -3074457345618258602},
			{"(+$.a) - -1", -9223372036854775807},
		} {
			got := query(t, tc.path, doc)
			if got != tc.want {
				t.Errorf("%s on %v: got %v (%T), want int64 %d: C13 \"When both operands "+
					"are integers and the exact result fits in int64 the result is that integer\"; "+
					"both operands are integers (unary + of an integer is that integer) "+
					"and the exact result fits",
					tc.path, doc, got, got, tc.want)
			}
		}
	}

	// 3. The same with literals only.
	if got := query(t, "+(-9223372036854775807 - 1) + 1", nil); got != int64(-9223372036854775807) {
		t.Errorf("+(-9223372036854775807 - 1) + 1: got %v (%T), want int64 -9223372036854775807 "+
			"(C13: integers in, exact result fits in int64, so the result is that integer)",
			got, got)
	}
}
