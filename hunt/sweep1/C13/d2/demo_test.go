// Belongs in: path/exec (package exec), e.g. path/exec/zz_c13_d2_test.go
// Run with:   go test -vet=off -count=1 -run 'ZZ' ./path/exec/
package exec

import (
	"context"
	"encoding/json"
	"math/big"
	"strings"
	"testing"

	"github.com/theory/sqljson/path/parser"
)

// Property C13: "When both operands are integers and the exact result fits in
// int64 the result is that integer (quotients either truncated or exact),
// otherwise it is the IEEE-754 double result; a result that does not fit is
// never silently wrapped into a wrong integer".  Quantifier: "... int32/int64
// limits and neighbours ... in each of the three numeric representations".
//
// A json.Number holding an integer just beyond the int64 limits (2^63, the
// upper neighbour of the int64 maximum) is an integer operand.  execMathOp
// only tries Int64() and otherwise goes straight to Float64(), so the operand
// is rounded to 53 bits before the operation, and results that fit in int64
// come out as a different number, silently.
func TestZZC13D2IntegerJSONNumberBeyondInt64(t *testing.T) {
	ctx := context.Background()

	for _, tc := range []struct {
		doc  string
		path string
		want string // exact result, fits in int64
	}{
		// 2^63 - 1 is the largest int64.
		{`{"a": 9223372036854775808}`, "$.a - 1", "9223372036854775807"},
		{`{"a": 9223372036854775808}`, "-1 + $.a", "9223372036854775807"},
		// the lower neighbour of the smallest int64, brought back into range
		{`{"a": -9223372036854775809}`, "$.a + 2", "-9223372036854775807"},
		// remainders are small integers
		{`{"a": 9223372036854775809}`, "$.a % 10", "9"},
		{`{"a": 9223372036854775809}`, "$.a % 2", "1"},
		// exact (and truncated) quotient
		{`{"a": 9223372036854775810}`, "$.a / 2", "4611686018427387905"},
		// difference of two neighbours
		{`{"a": 18446744073709551617, "b": 18446744073709551616}`, "$.a - $.b", "1"},
		{`{"a": 9223372036854775809, "b": 9223372036854775808}`, "$.a - $.b", "1"},
		// strict mode is the same
		{`{"a": 9223372036854775808}`, "strict $.a - 1", "9223372036854775807"},
	} {
		dec := json.NewDecoder(strings.NewReader(tc.doc))
		dec.UseNumber()
		var doc any
		if err := dec.Decode(&doc); err != nil {
			t.Fatal(err)
		}
		ast, err := parser.Parse(tc.path)
		if err != nil {
			t.Fatalf("parse %q: %v", tc.path, err)
		}
		res, err := Query(ctx, ast, doc)
		if err != nil {
			// Failing loudly would be acceptable under C13 ("exact or fails loudly").
			continue
		}
		if len(res) != 1 {
			t.Errorf("%s on %s: expected one item, got %v", tc.path, tc.doc, res)
			continue
		}

		want, _ := new(big.Int).SetString(tc.want, 10)
		var got *big.Int
		switch v := res[0].(type) {
		case int64:
			got = big.NewInt(v)
		case float64:
			if bi, acc := big.NewFloat(v).Int(nil); acc == big.Exact {
				got = bi
			}
		}
		if got == nil || got.Cmp(want) != 0 {
			t.Errorf("%s on %s: got %v (%T), want the integer %s: C13 \"When both operands are "+
				"integers and the exact result fits in int64 the result is that integer ... a result "+
				"that does not fit is never silently wrapped into a wrong integer\"; both operands "+
				"are integers (one a json.Number next to the int64 limit), the exact result fits in "+
				"int64, and a different number is returned without any error",
				tc.path, tc.doc, res[0], res[0], tc.want)
		}
	}
}
