#!/usr/bin/env python3
"""Regenerates /verif/MANIFEST.json from the per-property claims below and the
evidence written by the last run of each quick check (for the level category)."""
import json, subprocess, os, sys
V = '/verif'
props = [json.loads(l) for l in open(f'{V}/properties.jsonl')]
claimed = json.load(open(f'{V}/tools/claims.json'))
na_reason = json.load(open(f'{V}/tools/not_applicable.json'))
import glob
def technique(pid):
    t = ("contract-based deductive verification: VC generation over go/ssa of the real functions against //@ contracts kept in /repo "
         "(build tag verif); every obligation discharged by z3 5.1.0 / z3 4.8.12, cvc5 1.0 in reserve (thorough: all three from the start, 60 s)")
    if pid in ('C03', 'C04'):
        t += ("; the semantic actions of the goyacc-generated parser are extracted mechanically from grammar.go on every run "
              "(in-memory overlay, contracts derived from grammar.y) and verified like any other function")
    b = sorted(glob.glob(f'{V}/bounded/{pid}_*.go.tmpl'))
    if b:
        names = ', '.join(os.path.basename(x)[len(pid)+1:-8] for x in b)
        t += (f"; plus a bounded stand-in ({names}) for the part that is out of the verifier's reach, run against the real code on every check, "
              "labelled bounded in the evidence and never counted as a discharged obligation")
    return t

checks = []
for p in props:
    pid = p['id']
    if pid not in claimed:
        continue
    level = 'proof'
    ev = f'{V}/evidence/{pid}.json'
    if os.path.exists(ev):
        level = json.load(open(ev)).get('level', 'proof')
    c = claimed[pid]
    text = c['text']
    if level != 'proof':
        text += ' NOTE: some obligations of this property, or some inputs of its bounded stand-in, fail on the current tree because of genuine defects that are recorded in known_findings.json (test-pinned or not small to repair); the run reports them as KNOWN-FINDING, every other obligation is discharged, and the evidence level is therefore "other", not "proof".'
    checks.append({
        "property_id": pid,
        "quick_cmd": f"./bin/govc check -p {pid} -tier quick",
        "thorough_cmd": f"./bin/govc check -p {pid} -tier thorough",
        "evidence_file": f"/verif/evidence/{pid}.json",
        "replay_cmd_template": "./bin/govc replay {path}",
        "engine": "govc",
        "technique": technique(pid),
        "level_claimed": {"category": level, "text": text, "design_ref": "DESIGN.md §5 " + pid},
        "level_note": c.get('note', '') + " Trusted base: govc itself and the SMT solvers; assumed contracts on the standard library (fmt.Errorf/errors.Is wrap chains, math, strconv, encoding/json.Number, time, regexp, context); no function of the module is marked trusted: single-node wfAST facts are object invariants established by the constructors (obligations objinv:*), the facts relating a node to its operands (connective operands are predicates that end their chain, subscripts are subscript nodes) are named assumes clauses listed in the evidence; calls through function values are pure functions of their arguments; integers are mathematical with explicit wrap (bit-vectors in 'mode bv' functions); float64->int64 as on amd64."})
na = [{"property_id": p['id'], "reason": na_reason[p['id']]} for p in props if p['id'] not in claimed]
hs = subprocess.run("git -C /repo log --format=%H --grep='^verif:'", shell=True, capture_output=True, text=True).stdout.split()[::-1]
m = {"version": 1,
     "setup_cmd": "cd /verif/engine && GOFLAGS=-mod=mod GOPROXY=off GOSUMDB=off GOTOOLCHAIN=local go build -o ../bin/govc ./cmd/govc",
     "hooks": {"guard": "verif", "enable": "-tags=verif (contract files */contracts_verif.go carry //go:build verif; they contain //@ comments and ghost declarations only)",
               "baseline_off_cmd": "cd /repo && GOFLAGS=-mod=mod GOPROXY=off GOSUMDB=off go test -vet=off -count=1 ./...",
               "source_commits": hs, "add_only": True},
     "engines": [{"name": "govc", "path": "/verif/engine", "serves_properties": sorted(claimed),
                  "kind_free_text": "own VC generator over go/ssa (naive form) of /repo built with -tags=verif + contracts in //@ comments; obligations discharged by z3 / z3-new / cvc5"}],
     "checks": checks, "not_applicable": na,
     "notes": "see DESIGN.md; known_findings.json lists genuine defects (fixed and open)"}
json.dump(m, open(f'{V}/MANIFEST.json', 'w'), indent=1)
print('checks', len(checks), 'not_applicable', len(na))
