#!/bin/bash
# usage: try_mutant.sh <prop> <mN>   (reads /tmp/mut/out/<prop>/<mN>)
# 1. confirms in a scratch worktree: suite passes with the patch, demo fails with it and passes without
# 2. applies the patch to /repo, runs every registered check, reverts
export GOFLAGS=-mod=mod GOPROXY=off GOSUMDB=off GOTOOLCHAIN=local
P=$1; M=$2; D=/tmp/mut/out/$P/$M; W=/tmp/mut/confirm_$P$M
[ -f $D/patch.diff ] || { echo "no patch in $D"; exit 2; }
rm -rf $W; git -C /repo worktree prune; git -C /repo worktree add -q --detach $W HEAD || exit 2
cd $W
pkgdir=$(grep -m1 -o 'path/[a-z/]*' $D/demo_test.go | head -1)
[ -z "$pkgdir" ] && pkgdir=path/exec
pkgdir=${pkgdir%/}
# place the demo according to its package clause
pk=$(grep -m1 '^package ' $D/demo_test.go | awk '{print $2}')
case $pk in
  exec|exec_test) pkgdir=path/exec;; path|path_test) if grep -q 'path/test' $D/demo_test.go $D/notes.md 2>/dev/null && [ "$pk" = path_test ]; then pkgdir=path/test; else pkgdir=path; fi;;
  parser|parser_test) pkgdir=path/parser;; ast|ast_test) pkgdir=path/ast;; types|types_test) pkgdir=path/types;; test) pkgdir=path/test;;
esac
cp $D/demo_test.go $pkgdir/zz_demo_test.go
base=$(go test -vet=off -count=1 -run 'ZZ|Demo' ./$pkgdir 2>&1 | tail -3)
echo "demo without patch: $(echo "$base" | tail -1)"
git apply $D/patch.diff || { echo "PATCH DOES NOT APPLY"; cd /; git -C /repo worktree remove --force $W; exit 3; }
mut=$(go test -vet=off -count=1 -run 'ZZ|Demo' ./$pkgdir 2>&1 | tail -3)
echo "demo with patch: $(echo "$mut" | tail -1)"
rm $pkgdir/zz_demo_test.go
suite=$(go build ./... 2>&1 && go test -vet=off -count=1 ./path/... 2>&1 | grep -c "^ok")
echo "suite with patch: ok packages=$suite ($(go test -vet=off -count=1 ./path/... 2>&1 | grep -v '^ok' | head -3))"
cd /; git -C /repo worktree remove --force $W
# now our checks
git -C /repo apply $D/patch.diff || { echo "patch does not apply to /repo"; exit 3; }
cd /verif
caught=""
T=$(mktemp -d /tmp/trymut.XXXX)
python3 -c "import json;print('\n'.join(sorted(json.load(open('/verif/tools/claims.json')))))" | xargs -P 4 -I{} sh -c "GOVC_NOEVIDENCE=1 timeout 900 ./bin/govc check -p {} -tier quick > $T/{}.out 2>&1; echo \$? > $T/{}.code"
for f in $(ls $T/*.code | sort); do
  p=$(basename $f .code); code=$(cat $f)
  if [ "$code" != 0 ]; then caught="$caught $p(exit=$code)"; grep "^FAILED-OBLIGATION\|^UNDECIDED\|ERROR" $T/$p.out | cut -c1-160 | sed "s/^/   [$p] /" | head -6; fi
done
rm -rf $T
git -C /repo checkout -- .
echo "RESULT $P/$M caught_by:${caught:- NONE}"
