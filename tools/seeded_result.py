#!/usr/bin/env python3
# records the outcome of one seeded change (see seeded.sh)
import sys, json, re
id, prop, code, conf, path = sys.argv[1:6]
out = open(path).read()
obls = []; props = set()
for l in out.splitlines():
    m = re.match(r'FAILED-OBLIGATION (.*?) verdict=(\S+) solver=\S+ props=(\S*) ', l)
    if m:
        ps = [p for p in m.group(3).split(',') if p]
        obls.append({'obligation': m.group(1), 'verdict': m.group(2), 'props': ps})
        props.update(ps)
res = {'id': id, 'property': prop, 'exit': int(code), 'caught': int(code) == 1 and bool(obls),
       'caught_by_checks': sorted(props), 'own_property_check_alarms': prop in props, 'failed_obligations': obls}
if conf:
    res['confirmation'] = conf
if int(code) not in (0, 1):
    res['engine_output'] = '\n'.join(l for l in out.splitlines() if 'ERROR' in l or 'UNDECIDED' in l)[:2000]
json.dump(res, open('/verif/seeded/%s/result.json' % id, 'w'), indent=1)
print(id, 'caught_by:', ' '.join(sorted(props)) or 'NONE', '' if prop in props else '(own check silent)', conf)
