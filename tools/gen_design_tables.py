#!/usr/bin/env python3
# Regenerates the machine-written tables of DESIGN.md (between the markers
# <!-- gen:NAME:begin --> and <!-- gen:NAME:end -->) from the evidence files,
# the known-findings file and the recorded outcomes of the seeded corpus.
import json, glob, os, re

V = '/verif'

def status_table():
    rows = ['| id | functions | obligations | discharged | open findings | undecided covers | level | solver time (s) |', '|---|---|---|---|---|---|---|---|']
    for f in sorted(glob.glob(V + '/evidence/C*.json')):
        e = json.load(open(f))
        c = e.get('coverage', {})
        rows.append('| %s | %d | %d | %d | %d | %s | %s | %.1f |' % (
            e.get('property_id', os.path.basename(f)[:-5]), len(c.get('functions_under_contract', [])), c.get('obligations', 0), c.get('discharged', 0),
            len(c.get('known_findings') or []) + sum(int(b.get('known_findings') or 0) for b in (c.get('bounded_checks') or [])), ((c.get('vacuity') or {}).get('covers_undecided') or 0), e.get('level', '?'), c.get('solver_time_s', 0.0)))
    return '\n'.join(rows)

def findings_table():
    d = json.load(open(V + '/known_findings.json'))
    groups = {}
    for f in d['findings']:
        key = (f['status'], f.get('commit', ''), f['what'][:70])
        g = groups.setdefault(key, {'props': set(), 'obls': [], 'what': f['what'], 'status': f['status'], 'commit': f.get('commit', '')})
        g['props'].update(f['property'].split())
        if f['obligation'] not in g['obls']:
            g['obls'].append(f['obligation'])
    rows = ['| status | properties | obligation(s) | what fails |', '|---|---|---|---|']
    for k in sorted(groups, key=lambda k: (k[0] != 'fixed', k[1], k[2])):
        g = groups[k]
        st = g['status'] + (' ' + g['commit'] if g['commit'] else '')
        obls = '<br>'.join('`%s`' % o for o in g['obls'])
        rows.append('| %s | %s | %s | %s |' % (st, ' '.join(sorted(g['props'])), obls, g['what'].replace('|', '\\|').replace('\n', ' ')))
    return '\n'.join(rows)

def seeded_table():
    rows = ['| change | what it does | own check | all alarming checks | failing obligations |', '|---|---|---|---|---|']
    for d in sorted(glob.glob(V + '/seeded/C*-[mn]*')):
        id = os.path.basename(d)
        meta = {}
        if os.path.exists(d + '/meta.json'):
            meta = json.load(open(d + '/meta.json'))
        if not os.path.exists(d + '/result.json'):
            rows.append('| %s | %s | not run | | |' % (id, meta.get('summary', '')))
            continue
        r = json.load(open(d + '/result.json'))
        obls = sorted({o['obligation'] for o in r['failed_obligations']})
        more = ''
        if len(obls) > 3:
            more = ' (+%d)' % (len(obls) - 3)
        rows.append('| %s | %s | %s | %s | %s%s |' % (
            id, meta.get('summary', '').replace('|', '\\|'), 'alarms' if r['own_property_check_alarms'] else ('silent' if r['caught'] else ('undecided (exit 2: stale clauses)' if r.get('exit') == 2 else ('not a violation' if meta.get('expected') == 'not-a-violation' else ('not caught: inside a recorded finding' if meta.get('expected') == 'masked-by-known-finding' else 'MISSED')))),
            ' '.join(r['caught_by_checks']) or 'none', '<br>'.join('`%s`' % o for o in obls[:3]), more))
    return '\n'.join(rows)

def main():
    p = V + '/DESIGN.md'
    s = open(p).read()
    for name, fn in [('status', status_table), ('findings', findings_table), ('seeded', seeded_table)]:
        b, e = '<!-- gen:%s:begin -->' % name, '<!-- gen:%s:end -->' % name
        if b in s and e in s:
            i, j = s.index(b) + len(b), s.index(e)
            s = s[:i] + '\n' + fn() + '\n' + s[j:]
    open(p, 'w').write(s)

main()
