#!/usr/bin/env python3
# usage: mutprobe.py <worktree> <pkgfilter> <relative file> <start_index> <step>
# one-line mutants of a file: operator flips and off-by-one; reports those that the
# package's own tests do not kill and no obligation of the package fails on
import sys, re, subprocess, os
W, filt, rel, start, step = sys.argv[1], sys.argv[2], sys.argv[3], int(sys.argv[4]), int(sys.argv[5])
env = dict(os.environ, GOFLAGS='-mod=mod', GOPROXY='off', GOSUMDB='off', GOTOOLCHAIN='local')
path = os.path.join(W, rel)
src = open(path).read().split('\n')
muts = []
rules = [(r' == ', ' != '), (r' != ', ' == '), (r' < ', ' <= '), (r' <= ', ' < '), (r' > ', ' >= '), (r' >= ', ' > '),
         (r' && ', ' || '), (r' \|\| ', ' && '), (r'\+ 1\b', '+ 2'), (r'- 1\b', '- 2'), (r'\btrue\b', 'false'), (r'\bfalse\b', 'true')]
for i, line in enumerate(src):
    t = line.strip()
    if not t or t.startswith('//') or t.startswith('"') or 'fmt.Errorf' in t or t.startswith('case ') and '"' in t:
        continue
    for pat, rep in rules:
        m = re.search(pat, line)
        if m:
            new = line[:m.start()] + rep + line[m.end():]
            muts.append((i, line, new))
            break
muts = muts[start::step]
pkgdir = './' + os.path.dirname(rel)
for i, old, new in muts:
    src2 = list(src); src2[i] = new
    open(path, 'w').write('\n'.join(src2))
    try:
        b = subprocess.run(['go', 'build', pkgdir], cwd=W, env=env, capture_output=True, text=True)
        if b.returncode != 0:
            continue
        t = subprocess.run(['go', 'test', '-vet=off', '-count=1', './path/...'], cwd=W, env=env, capture_output=True, text=True, timeout=300)
        if t.returncode != 0:
            print(f'{rel}:{i+1} killed-by-suite', flush=True); continue
        g = subprocess.run(['./bin/govc', 'check', '-p', 'all', '-tier', 'quick', '-f', filt], cwd='/verif',
                           env=dict(env, GOVC_REPO=W, GOVC_NOEVIDENCE='1'), capture_output=True, text=True, timeout=900)
        failed = [l for l in g.stdout.split('\n') if l.startswith('FAILED-OBLIGATION') or l.startswith('UNDECIDED')]
        if failed:
            print(f'{rel}:{i+1} caught {failed[0][18:100]}', flush=True)
        else:
            print(f'{rel}:{i+1} SURVIVOR: {old.strip()}  ==>  {new.strip()}', flush=True)
    except subprocess.TimeoutExpired:
        print(f'{rel}:{i+1} timeout', flush=True)
    finally:
        open(path, 'w').write('\n'.join(src))
print('PROBE-DONE', flush=True)
