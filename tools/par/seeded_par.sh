#!/bin/bash
# usage: seeded_par.sh <worktree> <confirm 0|1> id...
export GOFLAGS=-mod=mod GOPROXY=off GOSUMDB=off GOTOOLCHAIN=local
W=$1; confirm=$2; shift 2
cd /verif
for id in "$@"; do
  D=/verif/seeded/$id; prop=${id%%-*}; conf=""
  if [ $confirm = 1 ]; then
    pk=$(grep -m1 '^package ' $D/demo_test.go | awk '{print $2}')
    case $pk in
      exec|exec_test) pkgdir=path/exec;; parser|parser_test) pkgdir=path/parser;; ast|ast_test) pkgdir=path/ast;;
      types|types_test) pkgdir=path/types;; test) pkgdir=path/test;;
      path_test) if grep -q 'package path_test' $W/path/test/*.go 2>/dev/null; then pkgdir=path/test; else pkgdir=path; fi;;
      *) pkgdir=path;;
    esac
    cp $D/demo_test.go $W/$pkgdir/zz_demo_test.go
    a=$(cd $W && go test -vet=off -count=1 -run 'ZZ|Demo|TestC[0-9][0-9]' ./$pkgdir 2>&1 | tail -1)
    if ! (cd $W && git apply $D/patch.diff); then conf="patch-does-not-apply"; else
      b=$(cd $W && go test -vet=off -count=1 -run 'ZZ|Demo|TestC[0-9][0-9]' ./$pkgdir 2>&1 | tail -1)
      rm $W/$pkgdir/zz_demo_test.go
      s=$(cd $W && go build ./... 2>&1 && go test -vet=off -count=1 ./... 2>&1 | grep -vc '^ok')
      conf="demo-unchanged=[${a%%	*}] demo-changed=[${b%%	*}] suite-not-ok-lines=$s"
    fi
    rm -f $W/$pkgdir/zz_demo_test.go
  else
    (cd $W && git apply $D/patch.diff) || { echo "$id: patch does not apply"; continue; }
    conf="confirmed earlier by tools/try_mutant.sh (demo passes without / fails with the patch, suite green)"
  fi
  out=$(GOVC_REPO=$W GOVC_NOEVIDENCE=1 timeout 1800 ./bin/govc check -p all -tier quick 2>&1); code=$?
  git -C $W checkout -- .; git -C $W clean -fdq path
  T=$(mktemp /tmp/seeded-out.XXXX); echo "$out" | sed "s|$W/|/repo/|g" > $T
  python3 /verif/tools/seeded_result.py "$id" "$prop" "$code" "$conf" $T; rm -f $T
done
echo WORKER-DONE
