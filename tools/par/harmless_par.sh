#!/bin/bash
# usage: harmless_par.sh <worktree> id...
W=$1; shift
cd /verif
for id in "$@"; do
  D=/verif/harmless/$id
  if ! git -C $W apply $D/patch.diff 2>/dev/null; then echo "$id: patch does not apply (skipped)"; continue; fi
  out=$(GOVC_REPO=$W GOVC_NOEVIDENCE=1 timeout 1800 ./bin/govc check -p all -tier quick 2>&1); code=$?
  git -C $W checkout -- .; git -C $W clean -fdq path
  nv=$(echo "$out" | grep -c "^VIOLATION"); ns=$(echo "$out" | grep -c "^STALE-CLAUSE")
  echo "$id exit=$code violations=$nv stale-clauses=$ns"
  if [ $code -ne 0 ] || [ $nv -ne 0 ]; then echo "$out" | grep "^FAILED-OBLIGATION\|^UNDECIDED\|ERROR" | cut -c1-200 | head -5 | sed 's/^/    /'; fi
done
echo WORKER-DONE
