#!/bin/bash
# usage: old_par.sh <worktree> id...   deductive obligations of the touched package only
W=$1; shift
cd /verif
for id in "$@"; do
  D=/verif/seeded/$id
  f=$(grep -h '^+++ b/' $D/patch.diff | sed 's|+++ b/||' | head -1)
  case $f in path/ast/*) filt="ast.";; path/parser/*) filt="parser.";; path/types/*) filt="types.";; path/exec/*) filt="exec.";; *) filt="path.";; esac
  if ! git -C $W apply $D/patch.diff 2>/dev/null; then echo "$id: patch does not apply"; continue; fi
  out=$(GOVC_REPO=$W GOVC_NOEVIDENCE=1 timeout 900 ./bin/govc check -p all -tier quick -f "$filt" 2>&1); code=$?
  git -C $W checkout -- .; git -C $W clean -fdq path
  n=$(echo "$out" | grep -c '^FAILED-OBLIGATION')
  u=$(echo "$out" | grep -c '^UNDECIDED')
  echo "$id [$filt] exit=$code failed=$n undecided=$u $(echo "$out" | grep '^FAILED-OBLIGATION' | head -1 | cut -c19-110)"
done
echo WORKER-DONE
