#!/bin/bash
# Must-pass corpus: every directory /verif/harmless/<id>/ holds a behaviour-
# preserving change to theory/sqljson (patch.diff, notes.md) of the kind a
# maintainer makes during clean-up: renamed locals, reordered statements,
# equivalent conditions, extracted helpers, range/index loop forms, reworded
# messages. Proposed by sub-agents that saw only a scratch worktree; each keeps
# the build and the repository's tests green. No check may raise a VIOLATION on
# any of them (a STALE-CLAUSE note is allowed: it says a contract clause names a
# local the code no longer has).
# usage: harmless.sh [id ...]; exit 1 if a change makes a check alarm.
cd /verif
ids="$@"; [ -z "$ids" ] && ids=$(cd harmless && ls -d */ | tr -d / | sort)
if [ -n "$(git -C /repo status --porcelain)" ]; then echo "/repo working tree is not clean"; exit 2; fi
trap 'git -C /repo checkout -- . 2>/dev/null; git -C /repo clean -fdq path 2>/dev/null' EXIT
bad=0
for id in $ids; do
  D=/verif/harmless/$id
  if ! git -C /repo apply $D/patch.diff 2>/dev/null; then echo "$id: patch does not apply to the current tree (skipped)"; continue; fi
  out=$(GOVC_NOEVIDENCE=1 timeout 1800 ./bin/govc check -p all -tier quick 2>&1); code=$?
  git -C /repo checkout -- .; git -C /repo clean -fdq path
  nv=$(echo "$out" | grep -c "^VIOLATION"); ns=$(echo "$out" | grep -c "^STALE-CLAUSE")
  echo "$id exit=$code violations=$nv stale-clauses=$ns"
  if [ $code -ne 0 ] || [ $nv -ne 0 ]; then bad=1; echo "$out" | grep "^FAILED-OBLIGATION\|^UNDECIDED\|ERROR" | cut -c1-200 | head -5 | sed 's/^/    /'; fi
done
exit $bad
