#!/bin/bash
# Must-fail corpus: every directory /verif/seeded/<id>/ holds a realistic change
# to theory/sqljson (patch.diff) that breaks the property named in its id while
# compiling and keeping the repository's own tests green, with a demonstration
# (demo_test.go) that fails on the changed tree and passes on the unchanged one.
#
# usage: seeded.sh [--confirm] [id ...]      (default: all ids)
#   --confirm  also re-confirm each change in a scratch worktree (outside /repo
#              and /verif): demo passes without / fails with the patch, suite green
# For each id: apply the patch to /repo's working tree, run every obligation
# (govc check -p all, no evidence written), revert, and record which properties'
# checks raise a violation in seeded/<id>/result.json. Exit 1 if a change is missed.
export GOFLAGS=-mod=mod GOPROXY=off GOSUMDB=off GOTOOLCHAIN=local
cd /verif
confirm=0
if [ "$1" = "--confirm" ]; then confirm=1; shift; fi
ids="$@"
[ -z "$ids" ] && ids=$(cd seeded && ls -d */ | tr -d / | sort)
if [ -n "$(git -C /repo status --porcelain)" ]; then echo "/repo working tree is not clean"; exit 2; fi
trap 'git -C /repo checkout -- . 2>/dev/null' EXIT
missed=0
for id in $ids; do
  D=/verif/seeded/$id
  [ -f $D/patch.diff ] || { echo "$id: no patch"; continue; }
  prop=${id%%-*}
  conf=""
  if [ $confirm = 1 ]; then
    W=$(mktemp -d /tmp/seeded.XXXX); rmdir $W
    git -C /repo worktree prune; git -C /repo worktree add -q --detach $W HEAD || exit 2
    pk=$(grep -m1 '^package ' $D/demo_test.go | awk '{print $2}')
    case $pk in
      exec|exec_test) pkgdir=path/exec;; parser|parser_test) pkgdir=path/parser;; ast|ast_test) pkgdir=path/ast;;
      types|types_test) pkgdir=path/types;; test) pkgdir=path/test;;
      path_test) if grep -q 'package path_test' $W/path/test/*.go 2>/dev/null; then pkgdir=path/test; else pkgdir=path; fi;;
      *) pkgdir=path;;
    esac
    cp $D/demo_test.go $W/$pkgdir/zz_demo_test.go
    race=""; grep -q -- "-race" $D/demo_test.go && race="-race"   # demonstrations of data races ask for the race detector
    a=$(cd $W && go test $race -vet=off -count=1 -run 'ZZ|Demo|TestC[0-9][0-9]' ./$pkgdir 2>&1 | tail -1)
    if ! (cd $W && git apply $D/patch.diff); then conf="patch-does-not-apply"; else
      b=$(cd $W && go test $race -vet=off -count=1 -run 'ZZ|Demo|TestC[0-9][0-9]' ./$pkgdir 2>&1 | tail -1)
      rm $W/$pkgdir/zz_demo_test.go
      s=$(cd $W && go build ./... 2>&1 && go test -vet=off -count=1 ./... 2>&1 | grep -vc '^ok')
      conf="demo-unchanged=[${a%%	*}] demo-changed=[${b%%	*}] suite-not-ok-lines=$s"
    fi
    git -C /repo worktree remove --force $W
  fi
  if ! git -C /repo apply $D/patch.diff 2>/dev/null; then echo "$id: patch does not apply to /repo"; missed=1; continue; fi
  out=$(GOVC_NOEVIDENCE=1 timeout 1800 ./bin/govc check -p all -tier quick 2>&1); code=$?
  git -C /repo checkout -- .
  T=$(mktemp /tmp/seeded-out.XXXX); echo "$out" > $T
  python3 /verif/tools/seeded_result.py "$id" "$prop" "$code" "$conf" $T; rm -f $T
  python3 -c "
import json,sys,os
r=json.load(open('/verif/seeded/$id/result.json'))
m=json.load(open('/verif/seeded/$id/meta.json')) if os.path.exists('/verif/seeded/$id/meta.json') else {}
if m.get('expected')=='undecided':
    # a restructuring that makes clauses of the function stale: the checks must not be
    # silent about it (exit 2, UNDECIDED), but it is not counted as a detected violation
    sys.exit(0 if r.get('exit')==2 or r['caught'] else 1)
if m.get('expected')=='masked-by-known-finding':
    # a genuine change inside a recorded, test-pinned defect: the obligation that states the rule
    # already fails as KNOWN-FINDING; listed as not caught, with the reason in meta.json
    sys.exit(0)
if m.get('expected')=='not-a-violation':
    # kept in the corpus as a reminder: the change does not break the property as quantified
    sys.exit(0 if not r['caught'] else 0)
sys.exit(0 if r['caught'] else 1)" || missed=1
done
exit $missed
