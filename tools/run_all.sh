#!/bin/bash
# runs every registered quick check, prints one line per property, regenerates the manifest
cd /verif
tier=${1:-quick}
rc=0
for p in $(python3 -c "import json;print(' '.join(sorted(json.load(open('tools/claims.json')))))"); do
  out=$(timeout 1800 ./bin/govc check -p $p -tier $tier 2>&1); code=$?
  echo "$p exit=$code $(echo "$out" | tail -1)"
  echo "$out" | grep "^VIOLATION\|^UNDECIDED\|ERROR" | head -5
  [ $code -ne 0 ] && rc=1
done
python3 tools/gen_manifest.py
python3 tools/gen_design_tables.py
python3-vt - <<'PY'
import json,jsonschema,glob
jsonschema.validate(json.load(open('/verif/MANIFEST.json')), json.load(open('/root/.vp/MANIFEST.schema.json')))
m=json.load(open('/verif/MANIFEST.json'))
for c in m['checks']:
    e=json.load(open(c['evidence_file']))
    jsonschema.validate(e, json.load(open('/root/.vp/EVIDENCE.schema.json')))
    assert e['level']==c['level_claimed']['category'], c['property_id']
    if e['level']=='proof': assert e['coverage']['obligations']==e['coverage']['discharged'], c['property_id']
print('manifest + evidence valid')
PY
exit $rc
