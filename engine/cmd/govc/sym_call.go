package main

import (
	"fmt"
	"go/ast"
	"go/token"
	"go/types"
	"sort"
	"strings"

	"golang.org/x/tools/go/ssa"
)

// ---------------------------------------------------------------------------
// ghost cells

func (x *X) pendingErrKey() string {
	return x.scalarKey("ghost:pendingErr", SInt, func() Term { return intLit(0) })
}
func (x *X) pendingFailedKey() string {
	return x.scalarKey("ghost:pendingFailed", SBool, func() Term { return tFalse })
}
func (x *X) callCountKey(fname string) string {
	return x.scalarKey("calls:"+fname+":count", x.enc.isz(), func() Term { return x.ic(0) })
}
func (x *X) callTraceKey(fname, kind, which string, s Sort, t types.Type) string {
	return x.scalarKey("calls:"+fname+":"+kind+":"+which, s, func() Term {
		if t != nil {
			return x.enc.zero(t)
		}
		return x.vc.fresh("trace0", s)
	})
}

func (x *X) findDeferGhost(field string, active bool) (string, bool) {
	suffix := ":val"
	if active {
		suffix = ":active"
	}
	for _, k := range x.ghostDeferKeys {
		if strings.HasSuffix(k, "."+field+suffix) {
			return k, true
		}
	}
	return "", false
}

// ---------------------------------------------------------------------------
// calls

func (x *X) call(fr *Frame, st *State, cc *ssa.CallCommon, site ssa.Instruction, pos token.Pos) []SV {
	if cc.IsInvoke() {
		recv := x.val(fr, cc.Value)
		var args []SV
		for _, a := range cc.Args {
			args = append(args, x.val(fr, a))
		}
		return x.invoke(fr, st, recv, cc.Method, args, pos)
	}
	switch fn := cc.Value.(type) {
	case *ssa.Builtin:
		return x.builtinCall(fr, st, fn, cc, pos)
	case *ssa.Function:
		var args []SV
		for _, a := range cc.Args {
			args = append(args, x.val(fr, a))
		}
		return x.callStatic(fr, st, fn, args, cc, pos)
	}
	fv := x.val(fr, cc.Value)
	var args []SV
	for _, a := range cc.Args {
		args = append(args, x.val(fr, a))
	}
	return x.callValue(fr, st, fv, args, cc.Signature(), cc, pos)
}

// callValue calls a function value (closure, bound method or unknown).
func (x *X) callValue(fr *Frame, st *State, fv SV, args []SV, sig *types.Signature, cc *ssa.CallCommon, pos token.Pos) []SV {
	if t, ok := fv.(Term); ok {
		if c, ok := x.closures[t.S]; ok {
			fv = c
		}
	}
	if c, ok := fv.(*ClosV); ok && c.fn != nil {
		if c.recv != nil {
			args = append([]SV{c.recv}, args...)
		}
		if len(c.binds) > 0 {
			return x.inline(fr, st, c.fn, args, c.binds, pos)
		}
		return x.callStatic(fr, st, c.fn, args, cc, pos)
	}
	// unknown function value: results are an uninterpreted function of the
	// function identity and its arguments (assumed pure, no heap effects)
	ft := x.asTerm(fv, sig)
	name := "dyn_" + sanitize(sig.String())
	if len(name) > 70 {
		name = name[:70]
	}
	x.enc.assumption("calls through function values are treated as pure functions of (function, arguments): " + sig.String())
	var targs []Term
	targs = append(targs, ft)
	for i, a := range args {
		var at types.Type
		if i < sig.Params().Len() {
			at = sig.Params().At(i).Type()
		}
		targs = append(targs, x.asTerm(a, at))
	}
	n := sig.Results().Len()
	rets := make([]SV, n)
	for i := 0; i < n; i++ {
		rt := sig.Results().At(i).Type()
		r := x.vc.define("dynres", x.ufS(fmt.Sprintf("%s_r%d", name, i), x.enc.sortOf(rt), targs...))
		x.assumeWF(st, r, rt)
		rets[i] = r
	}
	// effects: union of the writes of every function of the module with this signature
	x.dynEffects(fr, st, sig, args)
	// results of protocol-typed callbacks satisfy the schematic clauses
	if kind := protocolKind(sig); kind != "" && n == 2 {
		r0, r1 := rets[0].(Term), rets[1].(Term)
		u8 := types.Typ[types.Uint8]
		x.vc.assume(mkImplies(mkNot(mkEq(r1, intLit(0))), mkEq(r0, x.enc.intConst(2, u8))))
		x.vc.assume(x.enc.intCmp(token.LEQ, r0, x.enc.intConst(2, u8), u8))
		var cls []Term
		for _, nme := range x.sentinel.names {
			if strings.HasSuffix(nme, "exec.ErrExecution") || strings.HasSuffix(nme, "exec.ErrInvalid") {
				cls = append(cls, x.errorsIs(r1, T(SInt, sentName(nme))))
			}
		}
		x.vc.assume(mkImplies(mkNot(mkEq(r1, intLit(0))), mkOr(cls...)))
		if kind == "pred" {
			for _, nme := range x.sentinel.names {
				if strings.HasSuffix(nme, "exec.ErrVerbose") {
					x.vc.assume(mkNot(x.errorsIs(r1, T(SInt, sentName(nme)))))
				}
			}
		}
		x.enc.assumption("callbacks of protocol type (predOutcome/resultStatus, error) satisfy E1/E2 (every function of that type in package exec is verified against them)")
	}
	x.atDynAsserts(fr, st, dynName(cc), sig, args, cc.Pos())
	x.afterCallGhost(st, "param."+dynName(cc), sig, args, rets, nil)
	return rets
}

// dynEffects applies to the actual arguments the union of heap writes of all
// module functions whose signature is identical to sig (the possible targets
// of a call through a function value of that type).
func (x *X) dynEffects(fr *Frame, st *State, sig *types.Signature, args []SV) {
	for _, pkg := range sortedPkgs(x.prog) {
		if pkg.Pkg == nil || !isModulePkg(pkg.Pkg.Path(), x.module) {
			continue
		}
		var cands []*ssa.Function
		for _, m := range sortedMembers(pkg) {
			if f, ok := m.(*ssa.Function); ok {
				cands = append(cands, f)
				cands = append(cands, f.AnonFuncs...)
			}
		}
		for _, f := range cands {
			if f.Signature.Recv() != nil || !types.Identical(stripRecv(f.Signature), stripRecv(sig)) {
				continue
			}
			if strings.HasSuffix(x.prog.Fset.Position(f.Pos()).Filename, "_verif.go") {
				continue
			}
			var eff loopEff
			for _, b := range f.Blocks {
				for _, in := range b.Instrs {
					x.scanInstr(f, in, &eff, 0)
				}
			}
			for _, h := range eff.heap {
				if h.kind != "field" {
					continue
				}
				pi := paramIndex(f, h.base)
				if pi < 0 || pi >= len(args) {
					continue
				}
				ref := x.asTerm(args[pi], f.Params[pi].Type())
				key := x.fieldKey(h.typ, h.field)
				ft := h.typ.Underlying().(*types.Struct).Field(h.field).Type()
				nv := x.vc.fresh("dynw", x.enc.sortOf(ft))
				x.assumeWF(st, nv, ft)
				st.mem[key] = x.vc.define("h", mkStore(x.get(st, key), ref, nv))
				x.enc.assumption("call through a function value of type " + sig.String() + ": may write " + key + " of its argument (union over all module functions of that type)")
			}
		}
	}
}

func stripRecv(sig *types.Signature) *types.Signature {
	return types.NewSignatureType(nil, nil, nil, sig.Params(), sig.Results(), sig.Variadic())
}

func dynName(cc *ssa.CallCommon) string {
	if cc == nil {
		return "?"
	}
	// name of the variable holding the function, if it is a load of a named cell
	if u, ok := cc.Value.(*ssa.UnOp); ok {
		if a, ok := u.X.(*ssa.Alloc); ok {
			return a.Comment
		}
	}
	return cc.Value.Name()
}

func (x *X) onStack(fr *Frame, fn *ssa.Function) bool {
	for f := fr; f != nil; f = f.parent {
		if f.fn == fn {
			return true
		}
	}
	return false
}

func (x *X) canInline(fr *Frame, fn *ssa.Function) bool {
	if len(fn.Blocks) == 0 || hasLoops(fn) {
		return false
	}
	if fr != nil && (x.onStack(fr, fn) || fr.depth >= maxInlineDepth) {
		return false
	}
	return true
}

func (x *X) isModuleFn(fn *ssa.Function) bool {
	if fn.Pkg == nil {
		if rp := x.recvPkg(fn); rp != nil {
			return isModulePkg(rp.Path(), x.module)
		}
		if fn.Parent() != nil {
			return x.isModuleFn(fn.Parent())
		}
		// instantiations / wrappers: look at origin
		if o := fn.Origin(); o != nil && o != fn {
			return x.isModuleFn(o)
		}
		if fn.Object() != nil && fn.Object().Pkg() != nil {
			return isModulePkg(fn.Object().Pkg().Path(), x.module)
		}
		return false
	}
	return isModulePkg(fn.Pkg.Pkg.Path(), x.module)
}

func (x *X) callStatic(fr *Frame, st *State, fn *ssa.Function, args []SV, cc *ssa.CallCommon, pos token.Pos) []SV {
	// promoted-method wrappers called from another package: the method symbol of the outer receiver
	if fn.Synthetic != "" && fn.Signature.Recv() != nil && x.isModuleFn(fn) && x.recvPkg(fn) != nil && x.top != nil && x.top.Pkg != nil && x.recvPkg(fn) != x.top.Pkg.Pkg && strings.HasPrefix(fn.Synthetic, "wrapper") {
		return x.crossCall(fr, st, fn, args, pos)
	}
	// bound-method and other synthetic wrappers: look through
	if fn.Synthetic != "" && len(fn.Blocks) > 0 && !hasLoops(fn) && x.isModuleFn(fn) && fn.Parent() == nil && fn.Origin() == nil {
		return x.inline(fr, st, fn, args, nil, pos)
	}
	if !x.isModuleFn(fn) {
		x.atCallAsserts(fr, st, fn, args, pos)
		return x.external(fr, st, fn, args, cc, pos)
	}
	c := x.db.byFn[fn]
	if c == nil && fn.Origin() != nil {
		c = x.db.byFn[fn.Origin()]
	}
	sch := x.schematicFor(fn)
	if c == nil && sch == nil && x.crossPackage(fn) {
		return x.crossCall(fr, st, fn, args, pos)
	}
	if x.pure > 0 {
		if c != nil && c.Pure {
			return x.applyPure(fr, st, fn, c, args)
		}
		if x.canInline(fr, fn) {
			return x.inline(fr, st, fn, args, nil, pos)
		}
		if c != nil || sch != nil {
			return x.applyContract(fr, st, fn, c, sch, args, pos)
		}
		x.enc.unsupported("spec calls non-inlinable function without contract: " + funcName(fn))
		return x.havocResults(fn.Signature, st)
	}
	if c != nil && c.Pure {
		return x.applyPure(fr, st, fn, c, args)
	}
	if (c != nil && !c.Inline && !c.Ghost) || (sch != nil && (c == nil || !c.Inline)) {
		return x.applyContract(fr, st, fn, c, sch, args, pos)
	}
	if x.canInline(fr, fn) {
		x.inlined[funcName(fn)] = true
		return x.inline(fr, st, fn, args, nil, pos)
	}
	x.havoced[funcName(fn)] = true
	x.enc.unsupported("call to module function without contract that cannot be inlined (results arbitrary, heap effects ignored): " + funcName(fn))
	return x.havocResults(fn.Signature, st)
}

func (x *X) inline(fr *Frame, st *State, fn *ssa.Function, args []SV, binds []SV, pos token.Pos) []SV {
	if !x.canInline(fr, fn) {
		x.enc.unsupported("cannot inline " + funcName(fn))
		return x.havocResults(fn.Signature, st)
	}
	nf := x.newFrame(fn, fr)
	nf.params = args
	nf.free = binds
	if len(args) != len(fn.Params) {
		panic(fmt.Sprintf("inline %s: %d args for %d params", fn, len(args), len(fn.Params)))
	}
	in := st.clone()
	rets, out := x.run(nf, in)
	st.mem = out.mem
	st.reach = out.reach
	return rets
}

func (x *X) applyPure(fr *Frame, st *State, fn *ssa.Function, c *Contract, args []SV) []SV {
	// preconditions of pure functions are obligations at the call site too
	if x.pure == 0 {
		vars := x.paramVars(fn, args)
		resolve := x.fnResolver(fn, nil)
		callee := funcName(fn)
		for _, cc := range []*Contract{c, x.defaultRequires(fn)} {
			if cc == nil {
				continue
			}
			for _, cl := range cc.Requires {
				env := &specEnv{x: x, st: st, old: nil, vars: vars, fr: fr}
				x.pure++
				t, ok := x.evalClause(cl, fn, env, resolve)
				x.pure--
				if !ok {
					continue
				}
				x.callSeq[callee]++
				lbl := fmt.Sprintf("%s#%d", shortName(callee), x.callSeq[callee])
				if cl.Label != "" {
					lbl += ":" + cl.Label
				}
				x.obligation(st, "pre", lbl, t, token.NoPos, cl.Text, cl.Props)
				x.vc.assume(mkImplies(st.reach, t))
			}
		}
	}
	if fn.Signature.Recv() != nil && len(args) > 0 && fn.Object() != nil {
		// same symbol as interface / cross-package calls of the method
		rets := x.crossCall(fr, st, fn, args, token.NoPos)
		x.assumeEnsures(fr, st, st, fn, c, nil, args, rets)
		return rets
	}
	var targs []Term
	for i, a := range args {
		targs = append(targs, x.asTerm(a, fn.Params[i].Type()))
	}
	n := fn.Signature.Results().Len()
	rets := make([]SV, n)
	for i := 0; i < n; i++ {
		rt := fn.Signature.Results().At(i).Type()
		r := x.vc.define("pure", x.ufS(fmt.Sprintf("pure_%s_r%d", sanitize(funcName(fn)), i), x.enc.sortOf(rt), targs...))
		x.assumeWF(st, r, rt)
		rets[i] = r
	}
	// assume ensures
	x.assumeEnsures(fr, st, st, fn, c, nil, args, rets)
	return rets
}

// ---------------------------------------------------------------------------
// contracts at call sites

type locTarget struct {
	key string
	ref Term
	ptr *PtrV
	typ types.Type
}

func (x *X) paramVars(fn *ssa.Function, args []SV) map[string]SV {
	vars := map[string]SV{}
	for i, p := range fn.Params {
		if i < len(args) && p.Name() != "_" && p.Name() != "" {
			vars[p.Name()] = args[i]
		}
	}
	return vars
}

func (x *X) fnResolver(fn *ssa.Function, extra map[string]types.Type) nameResolver {
	return func(name string) (types.Type, bool) {
		if t, ok := extra[name]; ok {
			return t, true
		}
		for _, p := range fn.Params {
			if p.Name() == name && name != "_" {
				return p.Type(), true
			}
		}
		res := fn.Signature.Results()
		if len(name) == 2 && name[0] == 'r' && name[1] >= '0' && name[1] <= '9' {
			i := int(name[1] - '0')
			if i < res.Len() {
				return res.At(i).Type(), true
			}
		}
		for i := 0; i < res.Len(); i++ {
			if res.At(i).Name() == name && name != "" && name != "_" {
				return res.At(i).Type(), true
			}
		}
		return nil, false
	}
}

func (x *X) resultVars(fn *ssa.Function, vars map[string]SV, rets []SV) {
	res := fn.Signature.Results()
	for i := 0; i < res.Len() && i < len(rets); i++ {
		vars[fmt.Sprintf("r%d", i)] = rets[i]
		if n := res.At(i).Name(); n != "" && n != "_" {
			vars[n] = rets[i]
		}
	}
}

func (x *X) contractPkg(fn *ssa.Function, c *Contract) *pkgRef {
	return x.db.pkgOf(fn)
}

func (x *X) evalClause(cl *Clause, fn *ssa.Function, env *specEnv, resolve nameResolver) (t Term, ok bool) {
	pkg := x.db.pkgOf(fn)
	if pkg == nil {
		x.db.errorf("%s: no package for %s", cl.Line, funcName(fn))
		return tTrue, false
	}
	if err := x.db.compile(cl, pkg.pkg, resolve); err != nil {
		x.db.errorf("%v", err)
		return tTrue, false
	}
	env.info = cl.info
	env.where = cl.Line
	defer func() {
		if r := recover(); r != nil {
			if se, isSE := r.(specError); isSE {
				x.db.errorf("%s", se.msg)
				t, ok = tTrue, false
				return
			}
			panic(r)
		}
	}()
	if cl.Kind == "decreases" || cl.Kind == "let" {
		return env.evalTerm(cl.expr), true
	}
	return env.evalBool(cl.expr), true
}

// applyContract: check requires, havoc the frame, assume ensures.
func (x *X) applyContract(fr *Frame, st *State, fn *ssa.Function, c *Contract, sch *Contract, args []SV, pos token.Pos) []SV {
	vars := x.paramVars(fn, args)
	resolve := x.fnResolver(fn, nil)
	callee := funcName(fn)
	// call-site assertions of the function under verification
	x.atCallAsserts(fr, st, fn, args, pos)
	// preconditions
	for _, cc := range []*Contract{c, sch, x.defaultRequires(fn)} {
		if cc == nil {
			continue
		}
		for _, cl := range cc.Requires {
			env := &specEnv{x: x, st: st, old: nil, vars: vars, fr: fr}
			t, ok := x.evalClause(cl, fn, env, resolve)
			if !ok {
				continue
			}
			x.callSeq[callee]++
			lbl := fmt.Sprintf("%s#%d", shortName(callee), x.callSeq[callee])
			if cl.Label != "" {
				lbl += ":" + cl.Label
			}
			x.obligation(st, "pre", lbl, t, pos, cl.Text, nil)
			x.vc.assume(mkImplies(st.reach, t))
		}
	}
	pre := st.clone()
	// frame
	var mods []string
	if c != nil {
		mods = append(mods, c.Modifies...)
	}
	if sch != nil {
		mods = append(mods, sch.Modifies...)
	}
	// allocation counter and cancellation flag may advance
	ak := x.allocKey()
	na := x.vc.fresh("alloc", SInt)
	x.vc.assume(app(SBool, "<=", x.get(pre, ak), na))
	st.mem[ak] = na
	x.havocModifies(fr, st, pre, fn, mods, vars)
	if x.mayPoll(fn) {
		dk := x.ctxDoneKey()
		nd := x.vc.fresh("ctxDone", SBool)
		x.vc.assume(mkImplies(x.get(pre, dk), nd))
		st.mem[dk] = nd
	}
	rets := x.havocResults(fn.Signature, st)
	x.assumeEnsures(fr, st, pre, fn, c, sch, args, rets)
	x.afterCallGhost(st, callee, fn.Signature, args, rets, fn)
	return rets
}

func shortName(s string) string {
	if i := strings.LastIndex(s, "."); i >= 0 {
		return s[i+1:]
	}
	return s
}

func (x *X) assumeEnsures(fr *Frame, st, pre *State, fn *ssa.Function, c, sch *Contract, args, rets []SV) {
	vars := x.paramVars(fn, args)
	ovars := x.paramVars(fn, args)
	x.resultVars(fn, vars, rets)
	resolve := x.fnResolver(fn, nil)
	for _, cc := range []*Contract{c, sch, x.defaultEnsures(fn)} {
		if cc == nil {
			continue
		}
		for _, cl := range cc.Ensures {
			if cl.internal() {
				continue // statements about the callee's own call trace mean nothing to its callers
			}
			env := &specEnv{x: x, st: st, old: pre, vars: vars, ovars: ovars, fr: fr}
			x.pure++
			t, ok := x.evalClause(cl, fn, env, resolve)
			x.pure--
			if ok {
				x.vc.assume(mkImplies(st.reach, t))
			}
		}
	}
}

func (x *X) mayPoll(fn *ssa.Function) bool {
	// any executor-signature function (takes a context) may observe cancellation
	for _, p := range fn.Params {
		if p.Type().String() == "context.Context" {
			return true
		}
	}
	return false
}

// evalLoc evaluates a modifies entry (an lvalue expression) to a pointer.
func (env *specEnv) evalLoc(e ast.Expr) *PtrV {
	x := env.x
	switch e := ast.Unparen(e).(type) {
	case *ast.SelectorExpr:
		sel, ok := env.info.Selections[e]
		if !ok || sel.Kind() != types.FieldVal {
			env.fail("modifies entry %s is not a field", exprString(e))
		}
		recv := env.eval(e.X)
		rt := env.typeOf(e.X)
		idx := sel.Index()
		cur, ct := recv, rt
		var p *PtrV
		for k, i := range idx {
			if _, ok := ct.Underlying().(*types.Pointer); ok {
				pp := x.ptrOf(cur, ct)
				np := *pp
				np.path = append(append([]int{}, pp.path...), i)
				p = &np
			} else if p != nil {
				np := *p
				np.path = append(append([]int{}, p.path...), i)
				p = &np
			} else {
				env.fail("modifies entry %s is not addressable", exprString(e))
			}
			ct = p.pointee()
			if k < len(idx)-1 {
				if _, isPtr := ct.Underlying().(*types.Pointer); isPtr {
					cur = x.load(env.st, p)
					p = nil
				}
			}
		}
		return p
	case *ast.StarExpr:
		v := env.eval(e.X)
		return x.ptrOf(v, env.typeOf(e.X))
	case *ast.Ident:
		if obj, ok := env.info.Uses[e].(*types.Var); ok && obj.Pkg() != nil && obj.Parent() == obj.Pkg().Scope() {
			if sp := x.prog.Package(obj.Pkg()); sp != nil {
				if g, ok := sp.Members[obj.Name()].(*ssa.Global); ok {
					return x.globalPtr(g)
				}
			}
		}
	}
	env.fail("unsupported modifies entry %s", exprString(e))
	return nil
}

func (x *X) modifiesTargets(fr *Frame, st *State, fn *ssa.Function, mods []string, vars map[string]SV) []*PtrV {
	var out []*PtrV
	pkg := x.db.pkgOf(fn)
	resolve := x.fnResolver(fn, nil)
	for _, m := range mods {
		wild := false
		if strings.HasSuffix(m, ".*") {
			wild = true
			m = strings.TrimSuffix(m, ".*")
		}
		if wild {
			cl := x.db.modClause(fn, m)
			if err := x.db.compile(cl, pkg.pkg, resolve); err != nil {
				x.db.errorf("%v", err)
				continue
			}
			env := &specEnv{x: x, st: st, vars: vars, fr: fr, info: cl.info, where: cl.Line}
			func() {
				defer func() {
					if r := recover(); r != nil {
						if se, ok := r.(specError); ok {
							x.db.errorf("%s", se.msg)
							return
						}
						panic(r)
					}
				}()
				x.pure++
				defer func() { x.pure-- }()
				v := env.eval(cl.expr)
				pt := env.typeOf(cl.expr)
				p := x.ptrOf(v, pt)
				if stt, ok := p.pointee().Underlying().(*types.Struct); ok && p.kind == pkObj {
					for i := 0; i < stt.NumFields(); i++ {
						np := *p
						np.path = append(append([]int{}, p.path...), i)
						out = append(out, &np)
					}
				} else {
					out = append(out, p)
				}
			}()
			continue
		}
		cl := x.db.modClause(fn, m)
		if err := x.db.compile(cl, pkg.pkg, resolve); err != nil {
			x.db.errorf("%v", err)
			continue
		}
		env := &specEnv{x: x, st: st, vars: vars, fr: fr, info: cl.info, where: cl.Line}
		func() {
			defer func() {
				if r := recover(); r != nil {
					if se, ok := r.(specError); ok {
						x.db.errorf("%s", se.msg)
						return
					}
					panic(r)
				}
			}()
			x.pure++
			defer func() { x.pure-- }()
			if p := env.evalLoc(cl.expr); p != nil {
				out = append(out, p)
			}
		}()
	}
	return out
}

func (x *X) havocModifies(fr *Frame, st, pre *State, fn *ssa.Function, mods []string, vars map[string]SV) {
	for _, p := range x.modifiesTargets(fr, pre, fn, mods, vars) {
		x.havocLoc(st, pre, p)
	}
}

// havocLoc assigns an arbitrary well-formed value to the location; for slices
// the backing array may change too (append semantics: the old prefix is kept).
func (x *X) havocLoc(st, pre *State, p *PtrV) {
	t := p.pointee()
	// a nil object has no locations: the havoc is conditional on ref != nil
	var guard *Term
	if (p.kind == pkObj || p.kind == pkBox) && !p.nonNil {
		g := mkNot(mkEq(p.ref, intLit(0)))
		guard = &g
		before := map[string]Term{}
		for k, v := range st.mem {
			before[k] = v
		}
		defer func() {
			for k, v := range st.mem {
				if o, ok := before[k]; ok && o.S != v.S {
					st.mem[k] = x.vc.define("gmod", mkIte(*guard, v, o))
				} else if !ok {
					if _, isKey := x.keys[k]; isKey && !strings.HasPrefix(k, "L") {
						st.mem[k] = x.vc.define("gmod", mkIte(*guard, v, x.defaultOf(k)))
					}
				}
			}
		}()
	}
	nv := x.vc.fresh("mod", x.enc.sortOf(t))
	if sl, ok := t.Underlying().(*types.Slice); ok {
		old := x.load(pre, p)
		ob, oo, ol, _ := x.sliceParts(old)
		nb, no, nl, _ := x.sliceParts(nv)
		alloc := x.get(pre, x.allocKey())
		x.anyRef(T(SAny, "ANil"))
		x.vc.assume(app(SBool, "wfslice", nv))
		x.vc.assume(mkOr(mkEq(nb, ob), app(SBool, ">=", nb, alloc)))
		x.vc.assume(x.ile(ol, nl))
		es := x.enc.sortOf(sl.Elem())
		k := x.elemsKey(es)
		arr := x.get(st, k)
		innerS := arraySort(x.enc.isz(), es)
		ni := x.vc.fresh("modelems", innerS)
		oi := mkSelect(x.get(pre, k), ob, innerS)
		if !x.enc.bv {
			x.vc.assume(T(SBool, fmt.Sprintf("(forall ((i Int)) (! (=> (and (<= 0 i) (< i %s)) (= (select %s (+ %s i)) (select %s (+ %s i)))) :pattern ((select %s (+ %s i)))))", ol.S, ni.S, no.S, oi.S, oo.S, ni.S, no.S)))
		}
		// elements are well-formed values; what they refer to exists (heap
		// well-formedness: no reference to an object that is not allocated yet)
		if es == SAny && !x.enc.bv {
			x.anyRef(T(SAny, "ANil"))
			x.vc.assume(T(SBool, fmt.Sprintf("(forall ((i Int)) (! (< (anyref (select %s i)) %s) :pattern ((select %s i))))", ni.S, x.get(st, x.allocKey()).S, ni.S)))
		}
		st.mem[k] = x.vc.define("h", mkStore(arr, nb, ni))
	}
	x.store(st, p, nv)
	x.assumeWF(st, nv, t)
}

// afterCallGhost maintains the call-trace and pending-error ghost cells.
func (x *X) afterCallGhost(st *State, callee string, sig *types.Signature, args, rets []SV, fn *ssa.Function) {
	ck := x.callCountKey(callee)
	before := x.get(st, ck)
	st.mem[ck] = x.vc.define("ncalls", x.iadd(before, x.ic(1)))
	// results of the first call are kept separately
	for i := 0; i < sig.Results().Len() && i < len(rets); i++ {
		t := sig.Results().At(i).Type()
		if rt, ok := rets[i].(Term); ok {
			k := x.callTraceKey(callee, "first", fmt.Sprint(i), x.enc.sortOf(t), t)
			st.mem[k] = x.vc.define("firstret", mkIte(mkEq(before, x.ic(0)), rt, x.get(st, k)))
		}
	}
	if fn != nil {
		for i, p := range fn.Params {
			if i >= len(args) {
				break
			}
			if p.Name() == "_" || p.Name() == "" {
				continue
			}
			if _, ok := args[i].(*ClosV); ok {
				continue
			}
			if _, ok := args[i].(*PtrV); ok {
				if _, ok2 := x.ptrTerm(args[i].(*PtrV)); !ok2 {
					continue
				}
			}
			t := p.Type()
			k := x.callTraceKey(callee, "arg", p.Name(), x.enc.sortOf(t), t)
			st.mem[k] = x.asTerm(args[i], t)
		}
	} else {
		for i := 0; i < sig.Params().Len() && i < len(args); i++ {
			t := sig.Params().At(i).Type()
			if _, ok := args[i].(Term); !ok {
				continue
			}
			k := x.callTraceKey(callee, "arg", fmt.Sprint(i), x.enc.sortOf(t), t)
			st.mem[k] = args[i].(Term)
		}
	}
	for i := 0; i < sig.Results().Len() && i < len(rets); i++ {
		t := sig.Results().At(i).Type()
		if rt, ok := rets[i].(Term); ok {
			k := x.callTraceKey(callee, "ret", fmt.Sprint(i), x.enc.sortOf(t), t)
			st.mem[k] = rt
		}
	}
	// a function declared `propagates errors` must return the first error any callee gives it
	if c := x.topC; c != nil && c.PropagatesErrors && protocolKind(sig) == "" {
		if n := sig.Results().Len(); n > 0 && n == len(rets) && isErrorType(sig.Results().At(n-1).Type()) {
			if e, ok := rets[n-1].(Term); ok {
				pk := x.pendingErrKey()
				cur := x.get(st, pk)
				st.mem[pk] = x.vc.define("pendingErr", mkIte(mkEq(cur, intLit(0)), e, cur))
			}
		}
	}
	// pending error / failure of executor-protocol callees
	if kind := protocolKind(sig); kind != "" && len(rets) == 2 {
		s, e := rets[0].(Term), rets[1].(Term)
		pk := x.pendingErrKey()
		cur := x.get(st, pk)
		st.mem[pk] = x.vc.define("pendingErr", mkIte(mkEq(cur, intLit(0)), e, cur))
		if kind == "item" {
			fk := x.pendingFailedKey()
			st.mem[fk] = x.vc.define("pendingFailed", mkOr(x.get(st, fk), mkEq(s, x.enc.intConst(2, types.Typ[types.Uint8]))))
		}
	}
}

func protocolKind(sig *types.Signature) string {
	if sig.Results().Len() != 2 || !isErrorType(sig.Results().At(1).Type()) {
		return ""
	}
	switch sig.Results().At(0).Type().String() {
	case "github.com/theory/sqljson/path/exec.resultStatus":
		return "item"
	case "github.com/theory/sqljson/path/exec.predOutcome":
		return "pred"
	}
	return ""
}

// atCallAsserts: clauses "atcall f assert e" of the function under verification.
func (x *X) atCallAsserts(fr *Frame, st *State, callee *ssa.Function, args []SV, pos token.Pos) {
	x.atAsserts(fr, st, callee, "", nil, args, pos)
}

// atDynAsserts: "atcall <variable> assert e" for a call through the function
// value held in that variable; the arguments are arg_<param name> after the
// signature of the function type, or arg_0, arg_1, … when it names none.
func (x *X) atDynAsserts(fr *Frame, st *State, name string, sig *types.Signature, args []SV, pos token.Pos) {
	x.atAsserts(fr, st, nil, name, sig, args, pos)
}

func (x *X) atAsserts(fr *Frame, st *State, callee *ssa.Function, dynName string, dynSig *types.Signature, args []SV, pos token.Pos) {
	if x.topC == nil || x.pure > 0 || fr == nil {
		return
	}
	top := fr
	for top.parent != nil {
		top = top.parent
	}
	for _, cl0 := range x.topC.AtCalls {
		if callee != nil {
			if cl0.Callee != callee.Name() && !(callee.Pkg != nil && cl0.Callee == callee.Pkg.Pkg.Name()+"."+callee.Name()) {
				continue
			}
		} else if cl0.Callee != dynName {
			continue
		}
		cl := siteClause(cl0, pos)
		extra := map[string]types.Type{}
		vars := map[string]SV{}
		if callee == nil {
			for j := 0; j < dynSig.Params().Len(); j++ {
				pv := dynSig.Params().At(j)
				n := pv.Name()
				if n == "" || n == "_" {
					n = fmt.Sprint(j)
				}
				extra["arg_"+n] = pv.Type()
				if j < len(args) {
					vars["arg_"+n] = args[j]
				}
			}
		} else if len(callee.Params) > 0 {
			for i, p := range callee.Params {
				extra["arg_"+p.Name()] = p.Type()
				if i < len(args) {
					vars["arg_"+p.Name()] = args[i]
				}
				if i == 0 && callee.Signature.Recv() != nil {
					// the receiver also answers to arg_recv
					extra["arg_recv"] = p.Type()
					if len(args) > 0 {
						vars["arg_recv"] = args[0]
					}
				}
			}
		} else {
			// a function of another module (no body built): name the
			// arguments after the signature
			sig, i := callee.Signature, 0
			if sig.Recv() != nil {
				extra["arg_recv"] = sig.Recv().Type()
				if i < len(args) {
					vars["arg_recv"] = args[i]
				}
				i++
			}
			for j := 0; j < sig.Params().Len(); j++ {
				pv := sig.Params().At(j)
				n := pv.Name()
				if n == "" || n == "_" {
					n = fmt.Sprint(j)
				}
				extra["arg_"+n] = pv.Type()
				if i < len(args) {
					vars["arg_"+n] = args[i]
				}
				i++
			}
		}
		resolve, bind := x.localResolver(top, pos, extra)
		if pkg := x.db.pkgOf(x.top); pkg != nil {
			if err := x.db.compile(cl, pkg.pkg, resolve); err != nil {
				x.db.errorf("%v", err)
				continue
			}
			for n := range cl.names {
				resolve(n)
			}
		}
		env := &specEnv{x: x, st: st, old: x.entry, vars: vars, fr: top}
		env.vars = bind(st, vars)
		env.ovars = x.entryVars(top)
		t, ok := x.evalClause(cl, x.top, env, resolve)
		if !ok {
			continue
		}
		x.callSeq["atcall:"+cl.Label]++
		lbl := fmt.Sprintf("%s#%d", cl.Callee, x.callSeq["atcall:"+cl.Label])
		if cl.Label != "" {
			lbl += ":" + cl.Label
		}
		x.obligation(st, "atcall", lbl, t, pos, cl.Text, cl.Props)
	}
}

// ---------------------------------------------------------------------------
// builtins and interface calls

func (x *X) builtinCall(fr *Frame, st *State, b *ssa.Builtin, cc *ssa.CallCommon, pos token.Pos) []SV {
	switch b.Name() {
	case "len", "cap":
		a := cc.Args[0]
		v := x.term(fr, a)
		switch u := a.Type().Underlying().(type) {
		case *types.Slice:
			if b.Name() == "cap" {
				return []SV{app(x.enc.isz(), "scap", v)}
			}
			return []SV{app(x.enc.isz(), "slen", v)}
		case *types.Basic:
			return []SV{app(x.enc.isz(), "strlen", v)}
		case *types.Map:
			return []SV{x.mapLen(st, v, u)}
		case *types.Array:
			return []SV{x.ic(u.Len())}
		case *types.Pointer:
			return []SV{x.ic(u.Elem().Underlying().(*types.Array).Len())}
		}
	case "append":
		s := x.term(fr, cc.Args[0])
		st0 := cc.Args[0].Type().Underlying().(*types.Slice)
		// append(s, elems...) where the variadic slice has constant length
		vs := x.term(fr, cc.Args[1])
		if n, ok := x.constSliceLen(cc.Args[1]); ok {
			res := s
			for i := 0; i < n; i++ {
				ev := x.elemRead(st, vs, x.ic(int64(i)), st0.Elem())
				res = x.appendOne(st, res, ev, st0.Elem())
			}
			return []SV{res}
		}
		if isString(cc.Args[1].Type()) {
			x.enc.unsupported("append([]byte, string...) (result arbitrary)")
		} else {
			x.enc.unsupported("append with a variadic slice of unknown length (result arbitrary)")
		}
		r := x.vc.fresh("appended", SSlice)
		x.assumeWF(st, r, cc.Args[0].Type())
		_, _, ol, _ := x.sliceParts(s)
		_, _, nl, _ := x.sliceParts(r)
		x.vc.assume(x.ile(ol, nl))
		return []SV{r}
	case "min", "max":
		a, bb := x.term(fr, cc.Args[0]), x.term(fr, cc.Args[1])
		t := cc.Args[0].Type()
		var lt Term
		if isFloat(t) {
			lt = app(SBool, "fp.lt", a, bb)
		} else {
			lt = x.enc.intCmp(token.LSS, a, bb, t)
		}
		if b.Name() == "min" {
			return []SV{mkIte(lt, a, bb)}
		}
		return []SV{mkIte(lt, bb, a)}
	case "ssa:wrapnilchk":
		return []SV{x.val(fr, cc.Args[0])}
	case "ssa:deferstack":
		return []SV{intLit(0)}
	case "copy":
		x.enc.unsupported("copy builtin (destination contents arbitrary)")
		return []SV{x.havocValue(st, types.Typ[types.Int])}
	case "print", "println":
		return nil
	case "delete":
		x.enc.unsupported("delete builtin")
		return nil
	}
	x.enc.unsupported("builtin " + b.Name())
	return x.havocResults(cc.Signature(), st)
}

// constSliceLen recognises slices built from a fixed-size array literal
// (varargs) and returns their length.
func (x *X) constSliceLen(v ssa.Value) (int, bool) {
	if s, ok := v.(*ssa.Slice); ok && s.Low == nil && s.High == nil {
		if pt, ok := s.X.Type().Underlying().(*types.Pointer); ok {
			if arr, ok := pt.Elem().Underlying().(*types.Array); ok {
				return int(arr.Len()), true
			}
		}
	}
	if c, ok := v.(*ssa.Const); ok && c.Value == nil {
		return 0, true
	}
	return 0, false
}

// invoke: interface method call.
func (x *X) invoke(fr *Frame, st *State, recv SV, m *types.Func, args []SV, pos token.Pos) []SV {
	sig := m.Type().(*types.Signature)
	rt := sig.Recv().Type()
	if r := x.externalInvoke(fr, st, recv, m, args, pos); r != nil {
		return r
	}
	// interfaces of the module: methods are modelled as uninterpreted pure
	// functions of the receiver value (AST nodes are immutable while executing)
	if n, ok := rt.(*types.Named); ok && x.enc.inModule(n) || isModuleIface(m, x.module) {
		rv := x.asTerm(recv, rt)
		if x.pure == 0 {
			x.safety(st, fr, "nil-invoke", mkNot(T(SBool, "((_ is ANil) "+rv.S+")")), pos)
			x.atInvokeAsserts(fr, st, m, rv, args, pos)
		}
		// inside the declaring package, getters are resolved by case analysis over
		// the implementing types (their bodies are inlined)
		if rets, ok := x.invokeByCases(fr, st, rv, m, args, pos); ok {
			return rets
		}
		if x.pure == 0 && x.invokeEffectByCases(fr, st, rv, m, args, pos) {
			return nil
		}
		// an interface of the module with a single implementing type whose method
		// is under contract (the parser's lexer interface): the call is a call of
		// that method, on the assumption - recorded - that the receiver is of the
		// one type that can be
		if x.pure == 0 {
			if rets, ok := x.invokeSoleImplementer(fr, st, rv, m, args, pos); ok {
				return rets
			}
		}
		// a method of the package under verification that receives a pointer to an
		// opaque buffer (strings.Builder) may write it: the buffer is havoced and
		// the call is recorded as one event of the caller's output trace
		for i, a := range args {
			pt, ok := sig.Params().At(i).Type().Underlying().(*types.Pointer)
			if !ok || !x.enc.isOpaqueStruct(pt.Elem()) {
				continue
			}
			p := x.ptrOf(a, sig.Params().At(i).Type())
			x.store(st, p, x.vc.fresh("written", x.enc.sortOf(pt.Elem())))
			x.outEvent(st, T(SAny, "ANil"))
		}
		rets := x.methodUF(st, m, rv, args)
		x.promotedAxioms(st, m, rv, args, rets)
		return rets
	}
	x.enc.unsupported("interface call " + m.FullName() + " (results arbitrary)")
	return x.havocResults(sig, st)
}

func isModuleIface(m *types.Func, module string) bool {
	return m.Pkg() != nil && isModulePkg(m.Pkg().Path(), module)
}

// methodUF models a pure getter by an uninterpreted function per method name.
func (x *X) methodUF(st *State, m *types.Func, recv Term, args []SV) []SV {
	return x.methodSym(st, m.Pkg().Name(), m.Name(), m.Type().(*types.Signature), recv, args)
}

func (x *X) methodSym(st *State, pkgName, mname string, sig *types.Signature, recv Term, args []SV) []SV {
	targs := []Term{recv}
	for i, a := range args {
		targs = append(targs, x.asTerm(a, sig.Params().At(i).Type()))
	}
	n := sig.Results().Len()
	rets := make([]SV, n)
	for i := 0; i < n; i++ {
		rt := sig.Results().At(i).Type()
		name := fmt.Sprintf("m_%s_%s", sanitize(pkgName), mname)
		if n > 1 {
			name += fmt.Sprintf("_r%d", i)
		}
		r := x.vc.define("get", x.ufS(name, x.enc.sortOf(rt), targs...))
		x.assumeWF(st, r, rt)
		rets[i] = r
	}
	x.enc.assumption("methods of package " + pkgName + " called from other packages are pure functions of the receiver (immutability: frame obligations of that package)")
	return rets
}

// ---------------------------------------------------------------------------
// defers

func (x *X) deferCall(fr *Frame, st *State, in *ssa.Defer) {
	cc := &in.Call
	var fv SV
	var args []SV
	if cc.IsInvoke() {
		x.enc.unsupported("deferred interface call")
		return
	}
	fv = x.val(fr, cc.Value)
	for _, a := range cc.Args {
		args = append(args, x.val(fr, a))
	}
	if fr.loopDefers {
		x.deferGhost(fr, st, fv, args, cc)
		return
	}
	fr.defers = append(fr.defers, deferEntry{cond: st.reach, fn: fv, args: args, call: cc})
}

func (x *X) runDefers(fr *Frame, st *State) {
	// ghost restores of in-loop defers run first (they were pushed last)
	if fr.loopDefers {
		for _, base := range x.deferGhostBases(fr) {
			act := x.get(st, base+":active")
			ref := x.get(st, base+":ref")
			val := x.get(st, base+":val")
			key := strings.TrimPrefix(base, fmt.Sprintf("ghost:defer%d:", fr.id))
			arr := x.get(st, key)
			st.mem[key] = x.vc.define("h_defer", mkIte(act, mkStore(arr, ref, val), arr))
		}
	}
	for i := len(fr.defers) - 1; i >= 0; i-- {
		d := fr.defers[i]
		if d.cond.S == st.reach.S || d.cond.S == "true" {
			x.callValue(fr, st, d.fn, d.args, d.call.Signature(), d.call, d.call.Pos())
			continue
		}
		yes := st.clone()
		yes.reach = x.vc.define("reach", mkAnd(st.reach, d.cond))
		no := st.clone()
		no.reach = x.vc.define("reach", mkAnd(st.reach, mkNot(d.cond)))
		x.callValue(fr, yes, d.fn, d.args, d.call.Signature(), d.call, d.call.Pos())
		m := x.merge([]*State{yes, no})
		st.mem = m.mem
		// reach stays that of st (yes/no partition it)
	}
}

var recording = map[*X]*[]storeRec{}

func (x *X) deferGhostBases(fr *Frame) []string {
	var out []string
	prefix := fmt.Sprintf("ghost:defer%d:", fr.id)
	seen := map[string]bool{}
	for _, k := range x.ghostDeferKeys {
		if strings.HasPrefix(k, prefix) && strings.HasSuffix(k, ":active") {
			b := strings.TrimSuffix(k, ":active")
			if !seen[b] {
				seen[b] = true
				out = append(out, b)
			}
		}
	}
	sort.Strings(out)
	return out
}

func (x *X) registerDeferGhost(fr *Frame, key string, valSort Sort) string {
	base := fmt.Sprintf("ghost:defer%d:%s", fr.id, key)
	if _, ok := x.keys[base+":active"]; !ok {
		x.scalarKey(base+":active", SBool, func() Term { return tFalse })
		x.scalarKey(base+":ref", SInt, func() Term { return intLit(0) })
		x.scalarKey(base+":val", valSort, func() Term { return x.vc.fresh("dval0", valSort) })
		x.ghostDeferKeys = append(x.ghostDeferKeys, base+":active", base+":ref", base+":val")
	}
	return base
}

// deferGhost handles a defer inside a loop: the deferred closure must be a
// pure "restore" (heap field stores of captured values). Its effect is
// recorded in first-wins ghost cells and replayed at RunDefers (LIFO order
// makes the first pushed restore the last to run).
func (x *X) deferGhost(fr *Frame, st *State, fv SV, args []SV, cc *ssa.CallCommon) {
	scratch := st.clone()
	x.pure++
	x.callValue(fr, scratch, fv, args, cc.Signature(), cc, cc.Pos())
	x.pure--
	for _, k := range sortedKeys(scratch.mem) {
		nv := scratch.mem[k]
		ov, had := st.mem[k]
		if had && ov.S == nv.S {
			continue
		}
		if !strings.HasPrefix(k, "H:") {
			if strings.HasPrefix(k, "L") || strings.HasPrefix(k, "$") || strings.HasPrefix(k, "ghost:") || strings.HasPrefix(k, "calls:") {
				continue
			}
			x.enc.unsupported("deferred closure in a loop writes " + k)
			continue
		}
		// the write must be a single store at some ref: recover it from the term
		ref, val, ok := x.lastStore(nv, k)
		if !ok {
			x.enc.unsupported("deferred closure in a loop: cannot summarise write to " + k)
			continue
		}
		base := x.registerDeferGhost(fr, k, val.Sort)
		act := x.get(st, base+":active")
		st.mem[base+":ref"] = x.vc.define("dref", mkIte(act, x.get(st, base+":ref"), ref))
		st.mem[base+":val"] = x.vc.define("dval", mkIte(act, x.get(st, base+":val"), val))
		st.mem[base+":active"] = tTrue
	}
}

var lastStores = map[*X]map[string][2]Term{}

// lastStore finds the (ref,value) of the most recent define of a store term.
func (x *X) lastStore(t Term, key string) (ref, val Term, ok bool) {
	// look up the defining command of t in the VC
	needle := "(define-fun " + t.S + " ()"
	for i := len(x.vc.cmds) - 1; i >= 0; i-- {
		c := x.vc.cmds[i]
		if strings.HasPrefix(c, needle) {
			j := strings.Index(c, "(store ")
			if j < 0 {
				return
			}
			body := c[j+len("(store ") : len(c)-2]
			parts := splitSexp(body)
			if len(parts) != 3 {
				return
			}
			ki := x.keys[key]
			elem := Sort(strings.TrimSuffix(strings.TrimPrefix(string(ki.sort), "(Array Int "), ")"))
			return T(SInt, parts[1]), T(elem, parts[2]), true
		}
	}
	return
}

func splitSexp(s string) []string {
	var out []string
	depth := 0
	start := -1
	for i := 0; i < len(s); i++ {
		switch s[i] {
		case '(':
			if depth == 0 && start < 0 {
				start = i
			}
			depth++
		case ')':
			depth--
			if depth == 0 {
				out = append(out, s[start:i+1])
				start = -1
			}
		case ' ':
			if depth == 0 && start >= 0 {
				out = append(out, s[start:i])
				start = -1
			}
		default:
			if depth == 0 && start < 0 {
				start = i
			}
		}
	}
	if start >= 0 {
		out = append(out, s[start:])
	}
	return out
}

// crossPackage: a call from the package under verification into another
// package of the module that carries no contract.
func (x *X) recvPkg(fn *ssa.Function) *types.Package {
	if fn.Signature.Recv() == nil {
		return nil
	}
	t := fn.Signature.Recv().Type()
	if pt, ok := t.Underlying().(*types.Pointer); ok {
		t = pt.Elem()
	}
	if n, ok := t.(*types.Named); ok {
		return n.Obj().Pkg()
	}
	return nil
}

func (x *X) crossPackage(fn *ssa.Function) bool {
	if x.top == nil || x.top.Pkg == nil {
		return false
	}
	if rp := x.recvPkg(fn); rp != nil {
		return rp != x.top.Pkg.Pkg
	}
	p := fn.Pkg
	if p == nil && fn.Origin() != nil {
		p = fn.Origin().Pkg
	}
	if p == nil {
		return false
	}
	return p != x.top.Pkg
}

// crossCall models an uncontracted call into another module package as a
// pure function of its arguments (methods: of the receiver value and the
// method name, so that interface and concrete calls agree).
func (x *X) crossCall(fr *Frame, st *State, fn *ssa.Function, args []SV, pos token.Pos) []SV {
	sig := fn.Signature
	if sig.Recv() != nil && len(args) > 0 {
		rt := sig.Recv().Type()
		var recv Term
		if _, isPtr := rt.Underlying().(*types.Pointer); isPtr {
			ref := x.asTerm(args[0], rt)
			if x.pure == 0 {
				x.safety(st, fr, "nil-receiver", mkNot(mkEq(ref, intLit(0))), pos)
			}
			recv = app(SAny, "APtr", intLit(int64(x.enc.tid(rt))), ref)
		} else {
			recv = x.makeInterface(args[0], rt)
		}
		pkgName := "?"
		if p := x.recvPkg(fn); p != nil {
			pkgName = p.Name()
		}
		msig := types.NewSignatureType(nil, nil, nil, sig.Params(), sig.Results(), sig.Variadic())
		return x.methodSym(st, pkgName, fn.Name(), msig, recv, args[1:])
	}
	var targs []Term
	for i, a := range args {
		targs = append(targs, x.asTerm(a, fn.Params[i].Type()))
	}
	n := sig.Results().Len()
	rets := make([]SV, n)
	name := "xpkg_" + sanitize(funcName(fn))
	for i := 0; i < n; i++ {
		rt := sig.Results().At(i).Type()
		r := x.vc.define("xcall", x.ufS(fmt.Sprintf("%s_r%d", name, i), x.enc.sortOf(rt), targs...))
		x.assumeWF(st, r, rt)
		rets[i] = r
	}
	x.enc.assumption("calls into other module packages without a contract are pure functions of their arguments: " + funcName(fn))
	return rets
}

// promotedAxioms: when the dynamic type of an interface receiver is a struct
// that gets method m by embedding a pointer (StringNode -> *quotedString ...),
// the call is the same as the call on the embedded part. This links the
// interface-level method symbol with the concrete one.
func (x *X) promotedAxioms(st *State, m *types.Func, recv Term, args []SV, rets []SV) {
	iface, ok := m.Type().(*types.Signature).Recv().Type().Underlying().(*types.Interface)
	if !ok {
		return
	}
	sig := m.Type().(*types.Signature)
	for _, cand := range x.implementers(iface) {
		pt, ok := cand.Underlying().(*types.Pointer)
		if !ok {
			continue
		}
		n, ok := pt.Elem().(*types.Named)
		if !ok {
			continue
		}
		stt, ok := n.Underlying().(*types.Struct)
		if !ok {
			continue
		}
		sel := types.NewMethodSet(cand).Lookup(m.Pkg(), m.Name())
		if sel == nil || len(sel.Index()) != 2 {
			continue
		}
		f := stt.Field(sel.Index()[0])
		ipt, ok := f.Type().Underlying().(*types.Pointer)
		if !ok || !f.Embedded() {
			continue
		}
		guard := mkAnd(T(SBool, "((_ is APtr) "+recv.S+")"), mkEq(app(SInt, "aptrT", recv), intLit(int64(x.enc.tid(cand)))))
		inner := mkSelect(x.get(st, x.fieldKey(n, sel.Index()[0])), app(SInt, "aptr", recv), SInt)
		innerRecv := app(SAny, "APtr", intLit(int64(x.enc.tid(types.NewPointer(ipt.Elem())))), inner)
		irets := x.methodSym(st, m.Pkg().Name(), m.Name(), sig, innerRecv, args)
		for i := range rets {
			x.vc.assume(mkImplies(guard, mkEq(rets[i].(Term), irets[i].(Term))))
		}
		x.vc.assume(mkImplies(guard, app(SBool, "<", intLit(0), inner)))
	}
}

// outEvent records one output event (a rune, a string, or ANil for "a child
// printed itself") in the ghost cells outCount / outFirst / outLast.
func (x *X) outEvent(st *State, ev Term) {
	ck := x.scalarKey("ghost:outCount", x.enc.isz(), func() Term { return x.ic(0) })
	fk := x.scalarKey("ghost:outFirst", SAny, func() Term { return T(SAny, "ANil") })
	lk := x.scalarKey("ghost:outLast", SAny, func() Term { return T(SAny, "ANil") })
	cnt := x.get(st, ck)
	st.mem[fk] = x.vc.define("outFirst", mkIte(mkEq(cnt, x.ic(0)), ev, x.get(st, fk)))
	st.mem[lk] = ev
	st.mem[ck] = x.vc.define("outCount", x.iadd(cnt, x.ic(1)))
}

// atInvokeAsserts: "atcall <method> assert e" clauses for interface method
// calls; the receiver is arg_recv, parameters are arg_<name>.
func (x *X) atInvokeAsserts(fr *Frame, st *State, m *types.Func, recv Term, args []SV, pos token.Pos) {
	if x.topC == nil || fr == nil {
		return
	}
	top := fr
	for top.parent != nil {
		top = top.parent
	}
	sig := m.Type().(*types.Signature)
	for _, cl0 := range x.topC.AtCalls {
		if cl0.Callee != m.Name() {
			continue
		}
		cl := siteClause(cl0, pos)
		extra := map[string]types.Type{"arg_recv": sig.Recv().Type()}
		vars := map[string]SV{"arg_recv": recv}
		for i := 0; i < sig.Params().Len() && i < len(args); i++ {
			nm := sig.Params().At(i).Name()
			if nm == "" || nm == "_" {
				continue
			}
			extra["arg_"+nm] = sig.Params().At(i).Type()
			vars["arg_"+nm] = args[i]
		}
		resolve, bind := x.localResolver(top, pos, extra)
		if pkg := x.db.pkgOf(x.top); pkg != nil {
			if err := x.db.compile(cl, pkg.pkg, resolve); err != nil {
				x.db.errorf("%v", err)
				continue
			}
			for n := range cl.names {
				resolve(n)
			}
		}
		env := &specEnv{x: x, st: st, old: x.entry, vars: vars, fr: top}
		env.vars = bind(st, vars)
		env.ovars = x.entryVars(top)
		t, ok := x.evalClause(cl, x.top, env, resolve)
		if !ok {
			continue
		}
		x.callSeq["atcall:"+cl.Label]++
		lbl := fmt.Sprintf("%s#%d", cl.Callee, x.callSeq["atcall:"+cl.Label])
		if cl.Label != "" {
			lbl += ":" + cl.Label
		}
		x.obligation(st, "atcall", lbl, t, pos, cl.Text, cl.Props)
	}
}

// invokeByCases resolves an interface method call inside the package that
// declares the interface: if the method of every implementing type is a pure,
// loop-free getter, the result is the case split over the dynamic type.
func (x *X) invokeByCases(fr *Frame, st *State, recv Term, m *types.Func, args []SV, pos token.Pos) ([]SV, bool) {
	if x.top == nil || x.top.Pkg == nil || m.Pkg() != x.top.Pkg.Pkg {
		return nil, false
	}
	sig := m.Type().(*types.Signature)
	if sig.Results().Len() == 0 {
		return nil, false
	}
	iface, ok := sig.Recv().Type().Underlying().(*types.Interface)
	if !ok {
		return nil, false
	}
	type cas struct {
		cond Term
		fn   *ssa.Function
		recv SV
	}
	var cases []cas
	for _, cand := range x.implementers(iface) {
		sel := x.prog.MethodSets.MethodSet(cand).Lookup(m.Pkg(), m.Name())
		if sel == nil {
			return nil, false
		}
		fn := x.prog.MethodValue(sel)
		if fn == nil || len(fn.Blocks) == 0 || hasLoops(fn) || !pureGetter(fn, 0) {
			return nil, false
		}
		cond, pv := x.typeTest(recv, cand)
		cases = append(cases, cas{cond, fn, pv})
	}
	if len(cases) == 0 {
		return nil, false
	}
	var sts []*State
	var rets [][]SV
	for _, c := range cases {
		sc := st.clone()
		sc.reach = x.vc.define("reach", mkAnd(st.reach, c.cond))
		x.pure++
		r := x.inline(fr, sc, c.fn, append([]SV{c.recv}, args...), nil, pos)
		x.pure--
		sc.reach = c.cond
		sts = append(sts, sc)
		rets = append(rets, r)
	}
	// a receiver that is none of the implementers (nil, or a type of another
	// module): the result is the method symbol of the receiver, the same
	// function of the receiver wherever the case analysis is repeated
	{
		var none []Term
		for _, c := range cases {
			none = append(none, mkNot(c.cond))
		}
		sd := st.clone()
		sd.reach = mkAnd(none...)
		sts = append(sts, sd)
		rets = append(rets, x.methodSym(sd, m.Pkg().Name(), m.Name(), sig, recv, args))
	}
	n := sig.Results().Len()
	out := make([]SV, n)
	for i := 0; i < n; i++ {
		var col []SV
		for _, r := range rets {
			col = append(col, r[i])
		}
		out[i] = x.mergeSV(sts, col, "invoke_"+m.Name())
	}
	return out, true
}

// pureGetter: no stores, no calls other than to other pure getters (depth-limited).
func pureGetter(fn *ssa.Function, depth int) bool {
	if depth > 3 {
		return false
	}
	for _, b := range fn.Blocks {
		for _, in := range b.Instrs {
			switch in := in.(type) {
			case *ssa.Store:
				if a, ok := in.Addr.(*ssa.Alloc); ok && !a.Heap {
					continue
				}
				return false
			case *ssa.MapUpdate, *ssa.Go, *ssa.Defer, *ssa.Send:
				return false
			case *ssa.Call:
				callee, ok := in.Call.Value.(*ssa.Function)
				if !ok || in.Call.IsInvoke() {
					if b, isB := in.Call.Value.(*ssa.Builtin); isB && (b.Name() == "len" || b.Name() == "ssa:wrapnilchk" || b.Name() == "ssa:deferstack") {
						continue
					}
					return false
				}
				if len(callee.Blocks) == 0 || hasLoops(callee) || !pureGetter(callee, depth+1) {
					return false
				}
			}
		}
	}
	return true
}

// siteClause gives a per-call-site copy of an atcall clause: the same text is
// type-checked in the scope of each site (locals may differ in type there).
var siteClauses = map[*Clause]map[token.Pos]*Clause{}

func siteClause(cl *Clause, pos token.Pos) *Clause {
	m := siteClauses[cl]
	if m == nil {
		m = map[token.Pos]*Clause{}
		siteClauses[cl] = m
	}
	if c, ok := m[pos]; ok {
		return c
	}
	c := &Clause{Kind: cl.Kind, Label: cl.Label, Props: cl.Props, Text: cl.Text, Callee: cl.Callee, Line: cl.Line}
	m[pos] = c
	return c
}

// invokeSoleImplementer resolves an interface call when exactly one type of the
// module implements the interface and its method has a contract.
func (x *X) invokeSoleImplementer(fr *Frame, st *State, recv Term, m *types.Func, args []SV, pos token.Pos) ([]SV, bool) {
	sig := m.Type().(*types.Signature)
	iface, ok := sig.Recv().Type().Underlying().(*types.Interface)
	if !ok {
		return nil, false
	}
	impls := x.implementers(iface)
	if len(impls) != 1 {
		return nil, false
	}
	sel := x.prog.MethodSets.MethodSet(impls[0]).Lookup(m.Pkg(), m.Name())
	if sel == nil {
		return nil, false
	}
	fn := x.prog.MethodValue(sel)
	if fn == nil || x.db.byFn[fn] == nil {
		return nil, false
	}
	cond, pv := x.typeTest(recv, impls[0])
	x.enc.assumption("the only implementation of " + sig.Recv().Type().String() + " in the module is " + impls[0].String())
	x.vc.assume(mkImplies(st.reach, cond))
	return x.callStatic(fr, st, fn, append([]SV{pv}, args...), nil, pos), true
}

// invokeEffectByCases: inside the declaring package, a call through a module
// interface of a method without results (a setter such as Node.setNext) is a
// call of the implementing type's method, by case analysis over the
// implementing types: each case applies that method's contract (or inlines
// it) under its type test, and the states are merged. A receiver of none of
// the module's types cannot be given to this code by the module itself; that
// case leaves the state unchanged and is recorded as an assumption.
func (x *X) invokeEffectByCases(fr *Frame, st *State, recv Term, m *types.Func, args []SV, pos token.Pos) bool {
	if x.top == nil || x.top.Pkg == nil || m.Pkg() != x.top.Pkg.Pkg {
		return false
	}
	sig := m.Type().(*types.Signature)
	if sig.Results().Len() != 0 {
		return false
	}
	for i := 0; i < sig.Params().Len(); i++ {
		// printers (writeTo) take an opaque buffer and keep their output-trace model
		if pt, ok := sig.Params().At(i).Type().Underlying().(*types.Pointer); ok && x.enc.isOpaqueStruct(pt.Elem()) {
			return false
		}
	}
	iface, ok := sig.Recv().Type().Underlying().(*types.Interface)
	if !ok {
		return false
	}
	type cas struct {
		cond Term
		fn   *ssa.Function
		recv SV
	}
	var cases []cas
	for _, cand := range x.implementers(iface) {
		sel := x.prog.MethodSets.MethodSet(cand).Lookup(m.Pkg(), m.Name())
		if sel == nil {
			return false
		}
		fn := x.prog.MethodValue(sel)
		if fn == nil || len(fn.Blocks) == 0 {
			return false
		}
		cond, pv := x.typeTest(recv, cand)
		cases = append(cases, cas{cond, fn, pv})
	}
	if len(cases) == 0 {
		return false
	}
	var sts []*State
	var none []Term
	for _, c := range cases {
		sc := st.clone()
		sc.reach = x.vc.define("reach", mkAnd(st.reach, c.cond))
		x.callStatic(fr, sc, c.fn, append([]SV{c.recv}, args...), nil, pos)
		sts = append(sts, sc)
		none = append(none, mkNot(c.cond))
	}
	sd := st.clone()
	sd.reach = x.vc.define("reach", mkAnd(append([]Term{st.reach}, none...)...))
	sts = append(sts, sd)
	x.enc.assumption("a receiver of " + m.FullName() + " that is of none of the module's implementing types leaves the module's objects unchanged")
	reach := st.reach
	merged := x.merge(sts)
	st.mem = merged.mem
	st.reach = reach
	return true
}
