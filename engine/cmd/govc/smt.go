package main

// SMT layer: terms are strings with a sort; intermediate values are named by
// define-fun so that terms stay small. A VC is a list of commands (the
// prefix) plus obligations, each checked against the prefix as it stood when
// the obligation was generated.

import (
	"bytes"
	"context"
	"fmt"
	"os"
	"os/exec"
	"path/filepath"
	"sort"
	"strings"
	"sync"
	"time"
)

type Sort string

const (
	SBool  Sort = "Bool"
	SInt   Sort = "Int"
	SF64   Sort = "F64"
	SF32   Sort = "F32"
	SStr   Sort = "Str"
	SAny   Sort = "Any"
	SSlice Sort = "Slice"
)

type Term struct {
	S    string
	Sort Sort
}

func (t Term) String() string { return t.S }

func T(sort Sort, s string) Term { return Term{S: s, Sort: sort} }

func app(sort Sort, op string, args ...Term) Term {
	if len(args) == 0 {
		return Term{S: op, Sort: sort}
	}
	var b strings.Builder
	b.WriteByte('(')
	b.WriteString(op)
	for _, a := range args {
		b.WriteByte(' ')
		b.WriteString(a.S)
	}
	b.WriteByte(')')
	return Term{S: b.String(), Sort: sort}
}

var (
	tTrue  = T(SBool, "true")
	tFalse = T(SBool, "false")
)

func mkBool(b bool) Term {
	if b {
		return tTrue
	}
	return tFalse
}

func mkNot(a Term) Term {
	switch a.S {
	case "true":
		return tFalse
	case "false":
		return tTrue
	}
	if strings.HasPrefix(a.S, "(not ") {
		inner := a.S[5 : len(a.S)-1]
		if balanced(inner) {
			return T(SBool, inner)
		}
	}
	return app(SBool, "not", a)
}

func balanced(s string) bool {
	d := 0
	for i := 0; i < len(s); i++ {
		switch s[i] {
		case '(':
			d++
		case ')':
			d--
			if d < 0 {
				return false
			}
			if d == 0 && i != len(s)-1 {
				return false
			}
		case ' ':
			if d == 0 {
				return false
			}
		}
	}
	return d == 0
}

func mkAnd(as ...Term) Term {
	var keep []Term
	for _, a := range as {
		if a.S == "true" {
			continue
		}
		if a.S == "false" {
			return tFalse
		}
		keep = append(keep, a)
	}
	switch len(keep) {
	case 0:
		return tTrue
	case 1:
		return keep[0]
	}
	return app(SBool, "and", keep...)
}

func mkOr(as ...Term) Term {
	var keep []Term
	for _, a := range as {
		if a.S == "false" {
			continue
		}
		if a.S == "true" {
			return tTrue
		}
		keep = append(keep, a)
	}
	switch len(keep) {
	case 0:
		return tFalse
	case 1:
		return keep[0]
	}
	return app(SBool, "or", keep...)
}

func mkImplies(a, b Term) Term {
	if a.S == "true" {
		return b
	}
	if a.S == "false" || b.S == "true" {
		return tTrue
	}
	return app(SBool, "=>", a, b)
}

func mkIte(c, a, b Term) Term {
	if c.S == "true" {
		return a
	}
	if c.S == "false" {
		return b
	}
	if a.S == b.S {
		return a
	}
	return app(a.Sort, "ite", c, a, b)
}

func mkEq(a, b Term) Term {
	if a.S == b.S {
		return tTrue
	}
	if a.Sort == SF64 || a.Sort == SF32 {
		// structural equality on FP terms is only used for state merging /
		// frame comparison; Go's == on floats goes through fpEq.
		return app(SBool, "=", a, b)
	}
	return app(SBool, "=", a, b)
}

func mkSelect(arr Term, idx Term, elem Sort) Term { return app(elem, "select", arr, idx) }
func mkStore(arr, idx, v Term) Term               { return app(arr.Sort, "store", arr, idx, v) }

func arraySort(idx, elem Sort) Sort { return Sort("(Array " + string(idx) + " " + string(elem) + ")") }

func intLit(n int64) Term {
	if n < 0 {
		if n == -9223372036854775808 {
			return T(SInt, "(- 9223372036854775808)")
		}
		return T(SInt, fmt.Sprintf("(- %d)", -n))
	}
	return T(SInt, fmt.Sprintf("%d", n))
}

func bigLit(s string) Term {
	if strings.HasPrefix(s, "-") {
		return T(SInt, "(- "+s[1:]+")")
	}
	return T(SInt, s)
}

// ---------------------------------------------------------------------------

type Obligation struct {
	CountsFor []string
	Name      string   // stable name: pkg.Func/kind/label
	Kind      string   // post, pre, safety, inv-init, inv-preserve, frame, lemma, cover, ...
	Func      string   // function under contract
	Props     []string // property ids it is evidence for
	Goal      Term
	PrefixLen int // number of prefix commands visible
	DeclLen   int
	Pos       string
	Text      string // human readable source of the goal
	ExpectSat bool   // cover obligations: sat is the good answer
	Explicit  bool   // the clause carries its own property tags
	vc        *VC
	// results
	Verdict string // unsat | sat | unknown | timeout | error
	Solver  string
	TimeS   float64
	Model   string
	Output  string
}

type VC struct {
	Name   string
	decls  []string
	cmds   []string
	obls   []*Obligation
	nfresh int
	sorts  map[Sort]bool
	// values worth printing in a model (inputs)
	watch []Term
	quant int // >0 while translating the body of a quantifier
}

func newVC(name string) *VC {
	return &VC{Name: name, sorts: map[Sort]bool{}}
}

func sanitize(s string) string {
	var b strings.Builder
	for _, r := range s {
		switch {
		case r >= 'a' && r <= 'z', r >= 'A' && r <= 'Z', r >= '0' && r <= '9', r == '_':
			b.WriteRune(r)
		default:
			b.WriteByte('_')
		}
	}
	return b.String()
}

func (vc *VC) freshName(prefix string) string {
	vc.nfresh++
	return fmt.Sprintf("%s!%d", sanitize(prefix), vc.nfresh)
}

func (vc *VC) decl(s string) { vc.decls = append(vc.decls, s) }

// fresh declares an unconstrained constant.
func (vc *VC) fresh(prefix string, sort Sort) Term {
	if vc.quant > 0 {
		panic("a fresh value is needed inside a quantifier body (" + prefix + "): not supported")
	}
	n := vc.freshName(prefix)
	vc.cmds = append(vc.cmds, fmt.Sprintf("(declare-const %s %s)", n, sort))
	return T(sort, n)
}

// define names a term.
func (vc *VC) define(prefix string, t Term) Term {
	if !strings.ContainsAny(t.S, "( ") || vc.quant > 0 {
		return t
	}
	n := vc.freshName(prefix)
	vc.cmds = append(vc.cmds, fmt.Sprintf("(define-fun %s () %s %s)", n, t.Sort, t.S))
	return T(t.Sort, n)
}

func (vc *VC) assume(t Term) {
	if t.S == "true" || vc.quant > 0 {
		return
	}
	vc.cmds = append(vc.cmds, fmt.Sprintf("(assert %s)", t.S))
}

func (vc *VC) comment(s string) {
	vc.cmds = append(vc.cmds, "; "+strings.ReplaceAll(s, "\n", " "))
}

func (vc *VC) oblige(o *Obligation) *Obligation {
	o.PrefixLen = len(vc.cmds)
	o.DeclLen = len(vc.decls)
	o.vc = vc
	vc.obls = append(vc.obls, o)
	return o
}

// ---------------------------------------------------------------------------
// solver back ends

type solverSpec struct {
	name string
	argv func(file string, timeoutS int) []string
	pre  string
}

var allSolvers = []solverSpec{
	{"z3-new", func(f string, t int) []string { return []string{"z3-new", fmt.Sprintf("-T:%d", t), f} }, ""},
	{"z3", func(f string, t int) []string { return []string{"z3", fmt.Sprintf("-T:%d", t), f} }, ""},
	{"cvc5", func(f string, t int) []string {
		return []string{"cvc5", "--produce-models", fmt.Sprintf("--tlimit=%d", t*1000), f}
	}, "(set-logic ALL)\n"},
}

type runConfig struct {
	timeoutS int
	solvers  []string
	workdir  string
	seed     int
	keep     bool
	// late lists solvers of the race that start only after lateAfterMS
	late        []string
	lateAfterMS int
	idxBase     int // offset for the names of the query files of a second pass
}

func (o *Obligation) script(pre string, seed int) string {
	var b bytes.Buffer
	b.WriteString(pre)
	if pre == "" && seed != 0 {
		fmt.Fprintf(&b, "(set-option :random-seed %d)\n", seed%100000)
	}
	vc := o.vc
	for _, d := range vc.decls[:o.DeclLen] {
		if o.ExpectSat && strings.Contains(d, "(forall ") {
			continue
		}
		b.WriteString(d)
		b.WriteByte('\n')
	}
	for _, c := range vc.cmds[:o.PrefixLen] {
		if o.ExpectSat && strings.Contains(c, "(forall ") {
			continue // vacuity checks ignore quantified assumptions (weaker, but decidable)
		}
		b.WriteString(c)
		b.WriteByte('\n')
	}
	if o.ExpectSat {
		fmt.Fprintf(&b, "(assert %s)\n", o.Goal.S)
	} else {
		fmt.Fprintf(&b, "(assert (not %s))\n", o.Goal.S)
	}
	b.WriteString("(check-sat)\n")
	if len(vc.watch) > 0 && !o.ExpectSat {
		b.WriteString("(get-value (")
		for i, w := range vc.watch {
			if i > 0 {
				b.WriteByte(' ')
			}
			b.WriteString(w.S)
		}
		b.WriteString("))\n")
	}
	return b.String()
}

func runOne(ctx context.Context, sp solverSpec, file string, timeoutS int) (verdict, out string) {
	argv := sp.argv(file, timeoutS)
	cctx, cancel := context.WithTimeout(ctx, time.Duration(timeoutS+2)*time.Second)
	defer cancel()
	cmd := exec.CommandContext(cctx, argv[0], argv[1:]...)
	var buf bytes.Buffer
	cmd.Stdout = &buf
	cmd.Stderr = &buf
	_ = cmd.Run()
	out = buf.String()
	first := ""
	for _, ln := range strings.Split(out, "\n") {
		ln = strings.TrimSpace(ln)
		if ln == "" || strings.HasPrefix(ln, "WARNING") {
			continue
		}
		first = ln
		break
	}
	switch first {
	case "unsat", "sat", "unknown":
		return first, out
	case "timeout":
		return "timeout", out
	}
	if cctx.Err() != nil {
		return "timeout", out
	}
	return "error", out
}

// discharge runs the obligation on the configured solvers in parallel; the
// first definite answer (sat/unsat) wins.
func (o *Obligation) discharge(rc runConfig, idx int) {
	start := time.Now()
	type res struct {
		solver, verdict, out string
	}
	ctx, cancel := context.WithCancel(context.Background())
	defer cancel()
	ch := make(chan res, len(rc.solvers))
	n := 0
	for _, sp := range allSolvers {
		use := false
		for _, s := range rc.solvers {
			if s == sp.name {
				use = true
			}
		}
		if !use {
			continue
		}
		n++
		sp := sp
		file := filepath.Join(rc.workdir, fmt.Sprintf("o%05d.%s.smt2", idx+rc.idxBase, sp.name))
		if err := os.WriteFile(file, []byte(o.script(sp.pre, rc.seed)), 0o644); err != nil {
			ch <- res{sp.name, "error", err.Error()}
			continue
		}
		late := false
		for _, l := range rc.late {
			if l == sp.name {
				late = true
			}
		}
		go func() {
			if late {
				// a back end kept in reserve: started only when the others
				// have not answered after a short while
				select {
				case <-time.After(time.Duration(rc.lateAfterMS) * time.Millisecond):
				case <-ctx.Done():
					ch <- res{sp.name, "error", "not started"}
					return
				}
			}
			v, out := runOne(ctx, sp, file, rc.timeoutS)
			ch <- res{sp.name, v, out}
		}()
	}
	best := res{"", "error", "no solver"}
	rank := map[string]int{"error": 0, "timeout": 1, "unknown": 2, "sat": 3, "unsat": 3}
	for i := 0; i < n; i++ {
		r := <-ch
		if rank[r.verdict] > rank[best.verdict] || best.solver == "" {
			best = r
		}
		if r.verdict == "sat" || r.verdict == "unsat" {
			break
		}
	}
	cancel()
	o.Verdict, o.Solver, o.Output = best.verdict, best.solver, best.out
	if best.verdict == "sat" {
		if i := strings.Index(best.out, "sat\n"); i >= 0 {
			o.Model = strings.TrimSpace(best.out[i+4:])
		}
	}
	o.TimeS = time.Since(start).Seconds()
}

func (o *Obligation) ok() bool {
	if o.ExpectSat {
		return o.Verdict == "sat"
	}
	return o.Verdict == "unsat"
}

func dischargeAll(obls []*Obligation, rc runConfig, par int) {
	var wg sync.WaitGroup
	sem := make(chan struct{}, par)
	for i, o := range obls {
		wg.Add(1)
		sem <- struct{}{}
		go func(i int, o *Obligation) {
			defer wg.Done()
			defer func() { <-sem }()
			o.discharge(rc, i)
		}(i, o)
	}
	wg.Wait()
}

func sortedKeys[V any](m map[string]V) []string {
	ks := make([]string, 0, len(m))
	for k := range m {
		ks = append(ks, k)
	}
	sort.Strings(ks)
	return ks
}
