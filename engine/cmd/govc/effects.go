package main

// Static write-effect summaries, used to decide what a loop may modify.

import (
	"go/types"
	"sort"
	"strings"

	"golang.org/x/tools/go/ssa"
)

type heapEff struct {
	kind  string // field, elems, elemsOfField, box, map, global, all
	typ   types.Type
	field int
	elemT types.Type
	base  ssa.Value // value in the function being summarised (nil = unknown)
	param int       // for summaries: parameter index, -1 unknown, -2 fresh
	glob  *ssa.Global
}

type loopEff struct {
	callees   map[string]bool
	calleeFns map[string]*ssa.Function
	proto     bool
	cells     []*ssa.Alloc
	ranges    []*ssa.Range
	anyCall   bool
	allocs    bool
	heap      []heapEff
}

func rootAddr(v ssa.Value) (root ssa.Value, outer *ssa.FieldAddr, idx *ssa.IndexAddr) {
	for {
		switch a := v.(type) {
		case *ssa.FieldAddr:
			outer = a
			v = a.X
			continue
		case *ssa.IndexAddr:
			if idx == nil {
				idx = a
			}
			// an IndexAddr below a FieldAddr: elements of a slice; stop here
			return a.X, outer, a
		}
		return v, outer, idx
	}
}

// scanInstr appends the heap effects of one instruction of fn.
func (x *X) scanInstr(fn *ssa.Function, in ssa.Instruction, eff *loopEff, depth int) {
	switch in := in.(type) {
	case *ssa.Alloc:
		if in.Heap {
			eff.allocs = true
		}
	case *ssa.MakeSlice, *ssa.MakeMap, *ssa.MakeClosure:
		eff.allocs = true
	case *ssa.Range:
		eff.ranges = append(eff.ranges, in)
	case *ssa.Convert:
		eff.allocs = true
	case *ssa.Store:
		x.scanStore(in.Addr, eff)
	case *ssa.MapUpdate:
		eff.heap = append(eff.heap, heapEff{kind: "map", typ: in.Map.Type(), base: in.Map})
	case *ssa.Call:
		x.scanCall(fn, in.Common(), eff, depth)
	case *ssa.Defer:
		// executed at RunDefers (outside the loop) or summarised by ghosts
	}
}

func (x *X) scanStore(addr ssa.Value, eff *loopEff) {
	root, outer, idx := rootAddr(addr)
	if idx != nil && root == idx.X {
		// element of slice / array
		switch t := idx.X.Type().Underlying().(type) {
		case *types.Slice:
			eff.heap = append(eff.heap, heapEff{kind: "elems", elemT: t.Elem(), base: idx.X})
		case *types.Pointer:
			arr := t.Elem().Underlying().(*types.Array)
			if a, ok := idx.X.(*ssa.Alloc); ok {
				_ = a
				return // freshly allocated array (varargs)
			}
			eff.heap = append(eff.heap, heapEff{kind: "elems", elemT: arr.Elem(), base: idx.X})
		}
		return
	}
	switch r := root.(type) {
	case *ssa.Alloc:
		if !r.Heap {
			eff.cells = append(eff.cells, r)
			return
		}
		if outer == nil {
			// box cell captured by a closure
			el := r.Type().Underlying().(*types.Pointer).Elem()
			if _, isStruct := el.Underlying().(*types.Struct); !isStruct {
				eff.heap = append(eff.heap, heapEff{kind: "box", typ: el, base: r})
				return
			}
		}
		if outer != nil {
			pt := outer.X.Type().Underlying().(*types.Pointer)
			eff.heap = append(eff.heap, heapEff{kind: "field", typ: pt.Elem(), field: outer.Field, base: r})
		}
		return
	case *ssa.Global:
		eff.heap = append(eff.heap, heapEff{kind: "global", glob: r})
		return
	}
	if outer != nil {
		pt, ok := outer.X.Type().Underlying().(*types.Pointer)
		if ok {
			if _, isS := pt.Elem().Underlying().(*types.Struct); isS {
				eff.heap = append(eff.heap, heapEff{kind: "field", typ: pt.Elem(), field: outer.Field, base: root})
				return
			}
		}
	}
	// store through a plain pointer
	if pt, ok := addr.Type().Underlying().(*types.Pointer); ok {
		eff.heap = append(eff.heap, heapEff{kind: "box", typ: pt.Elem(), base: root})
	}
}

func (x *X) scanCall(fn *ssa.Function, cc *ssa.CallCommon, eff *loopEff, depth int) {
	if b, ok := cc.Value.(*ssa.Builtin); ok {
		if b.Name() == "append" {
			eff.allocs = true
			st := cc.Args[0].Type().Underlying().(*types.Slice)
			// append(x.f, ...) : the backing array of the slice stored in field f of x
			if u, ok := cc.Args[0].(*ssa.UnOp); ok {
				if fa, ok := u.X.(*ssa.FieldAddr); ok {
					if pt, ok := fa.X.Type().Underlying().(*types.Pointer); ok {
						if _, isS := pt.Elem().Underlying().(*types.Struct); isS {
							eff.heap = append(eff.heap, heapEff{kind: "elemsOfField", typ: pt.Elem(), field: fa.Field, elemT: st.Elem(), base: fa.X})
							return
						}
					}
				}
			}
			eff.heap = append(eff.heap, heapEff{kind: "elems", elemT: st.Elem(), base: cc.Args[0]})
		}
		return
	}
	eff.anyCall = true
	if eff.callees == nil {
		eff.callees = map[string]bool{}
	}
	if protocolKind(cc.Signature()) != "" {
		eff.proto = true
	}
	if cc.IsInvoke() {
		return
	}
	if f, ok := cc.Value.(*ssa.Function); ok {
		eff.callees[funcName(f)] = true
		if eff.calleeFns == nil {
			eff.calleeFns = map[string]*ssa.Function{}
		}
		eff.calleeFns[funcName(f)] = f
	} else {
		eff.callees["param."+dynName(cc)] = true
	}
	callee, ok := cc.Value.(*ssa.Function)
	if !ok {
		// closures created here
		if mc, ok := cc.Value.(*ssa.MakeClosure); ok {
			x.scanBody(mc.Fn.(*ssa.Function), eff, depth+1, nil)
			return
		}
		// call through a function value: union of effects of same-typed module functions
		if depth == 0 {
			x.scanDyn(cc, eff)
		}
		return
	}
	if !x.isModuleFn(callee) {
		switch callee.String() {
		case "slices.Sort":
			st := cc.Args[0].Type().Underlying().(*types.Slice)
			eff.heap = append(eff.heap, heapEff{kind: "elems", elemT: st.Elem(), base: cc.Args[0]})
		}
		if strings.HasPrefix(callee.String(), "(*strings.Builder).") {
			x.scanStore(cc.Args[0], eff)
		}
		return
	}
	c := x.db.byFn[callee]
	sch := x.schematicFor(callee)
	if (c != nil && !c.Inline) || sch != nil {
		var mods []string
		if c != nil {
			mods = append(mods, c.Modifies...)
		}
		if sch != nil {
			mods = append(mods, sch.Modifies...)
		}
		for _, m := range mods {
			x.modEffect(callee, cc, m, eff)
		}
		eff.allocs = true
		return
	}
	if depth > 5 {
		eff.heap = append(eff.heap, heapEff{kind: "all"})
		return
	}
	x.scanBody(callee, eff, depth+1, cc.Args)
}

// modEffect maps a callee modifies entry "param.field" to an effect in the caller.
func (x *X) modEffect(callee *ssa.Function, cc *ssa.CallCommon, m string, eff *loopEff) {
	name, field, ok := strings.Cut(m, ".")
	if !ok || strings.Contains(field, ".") {
		eff.heap = append(eff.heap, heapEff{kind: "all"})
		return
	}
	for i, p := range callee.Params {
		if p.Name() != name || i >= len(cc.Args) {
			continue
		}
		pt, ok := p.Type().Underlying().(*types.Pointer)
		if !ok {
			break
		}
		st, ok := pt.Elem().Underlying().(*types.Struct)
		if !ok {
			break
		}
		for f := 0; f < st.NumFields(); f++ {
			if st.Field(f).Name() == field {
				eff.heap = append(eff.heap, heapEff{kind: "field", typ: pt.Elem(), field: f, base: cc.Args[i]})
				if sl, ok := st.Field(f).Type().Underlying().(*types.Slice); ok {
					eff.heap = append(eff.heap, heapEff{kind: "elemsOfField", typ: pt.Elem(), field: f, elemT: sl.Elem(), base: cc.Args[i]})
				}
				return
			}
		}
	}
	eff.heap = append(eff.heap, heapEff{kind: "all"})
}

// scanBody adds the effects of an inlined callee, mapping its parameters to
// the caller's argument values.
func (x *X) scanBody(callee *ssa.Function, eff *loopEff, depth int, actuals []ssa.Value) {
	var sub loopEff
	for _, b := range callee.Blocks {
		for _, in := range b.Instrs {
			x.scanInstr(callee, in, &sub, depth)
		}
	}
	eff.anyCall = eff.anyCall || sub.anyCall
	eff.allocs = eff.allocs || sub.allocs
	eff.proto = eff.proto || sub.proto
	for k := range sub.callees {
		if eff.callees == nil {
			eff.callees = map[string]bool{}
		}
		eff.callees[k] = true
	}
	for k, f := range sub.calleeFns {
		if eff.calleeFns == nil {
			eff.calleeFns = map[string]*ssa.Function{}
		}
		eff.calleeFns[k] = f
	}
	for _, h := range sub.heap {
		h.base = mapToCaller(callee, h.base, actuals)
		eff.heap = append(eff.heap, h)
	}
}

// mapToCaller rewrites a base value of the callee into a caller value when it
// is (a load of the spill cell of) a parameter; fresh allocations map to a
// marker; anything else becomes unknown (nil).
func mapToCaller(callee *ssa.Function, v ssa.Value, actuals []ssa.Value) ssa.Value {
	if v == nil {
		return nil
	}
	pi := paramIndex(callee, v)
	if pi >= 0 && actuals != nil && pi < len(actuals) {
		return actuals[pi]
	}
	switch a := v.(type) {
	case *ssa.Alloc:
		if a.Heap {
			return freshMarker
		}
	case *ssa.MakeSlice, *ssa.MakeMap:
		return freshMarker
	}
	if v == freshMarker {
		return v
	}
	return nil
}

var freshMarker ssa.Value = &ssa.Const{}

func paramIndex(fn *ssa.Function, v ssa.Value) int {
	for i, p := range fn.Params {
		if v == p {
			return i
		}
	}
	if u, ok := v.(*ssa.UnOp); ok {
		if a, ok := u.X.(*ssa.Alloc); ok {
			// spill cell of a parameter: stored exactly once, from the parameter
			var src ssa.Value
			n := 0
			for _, r := range *a.Referrers() {
				if st, ok := r.(*ssa.Store); ok && st.Addr == a {
					n++
					src = st.Val
				}
			}
			if n == 1 {
				for i, p := range fn.Params {
					if src == p {
						return i
					}
				}
			}
		}
	}
	return -1
}

func (x *X) loopEffects(fr *Frame, li *loopInfo) *loopEff {
	eff := &loopEff{}
	for _, b := range fr.fn.Blocks {
		if !li.body[b] {
			continue
		}
		for _, in := range b.Instrs {
			x.scanInstr(fr.fn, in, eff, 0)
		}
	}
	// field writes first: effects on the arrays behind slice fields refer to
	// the (already havoced) slice headers
	sort.SliceStable(eff.heap, func(i, j int) bool {
		return eff.heap[i].kind == "field" && eff.heap[j].kind != "field"
	})
	return eff
}

// resolveBase evaluates the base value of an effect at loop entry, if it is
// loop invariant.
func (x *X) resolveBase(fr *Frame, li *loopInfo, pre *State, v ssa.Value, cells map[*ssa.Alloc]bool) (SV, bool, bool) {
	if v == nil {
		return nil, false, false
	}
	if v == freshMarker {
		return nil, false, true
	}
	if in, ok := v.(ssa.Instruction); ok && in.Block() != nil && li.body[in.Block()] {
		// defined inside the loop
		switch d := v.(type) {
		case *ssa.Alloc:
			return nil, false, true // fresh per iteration
		case *ssa.MakeSlice, *ssa.MakeMap:
			return nil, false, true
		case *ssa.UnOp:
			if a, ok := d.X.(*ssa.Alloc); ok {
				if cells[a] {
					return nil, false, false
				}
				if p, ok := fr.vals[a].(*PtrV); ok {
					if p.kind == pkLocal {
						if _, ok := pre.mem[p.key]; ok {
							val := x.load(pre, p)
							return val, true, false
						}
					} else if p.kind == pkBox {
						return x.load(pre, p), true, false
					}
				}
			}
		}
		return nil, false, false
	}
	if sv, ok := fr.vals[v]; ok {
		return sv, true, false
	}
	if _, ok := v.(*ssa.Parameter); ok {
		return x.val(fr, v), true, false
	}
	return nil, false, false
}

func (x *X) havocHeapEffect(fr *Frame, li *loopInfo, head, pre *State, h heapEff) {
	cells := map[*ssa.Alloc]bool{}
	if li != nil {
		for _, a := range x.loopEffects(fr, li).cells {
			cells[a] = true
		}
	} else {
		li = &loopInfo{body: map[*ssa.BasicBlock]bool{}}
	}
	whole := func(key string) {
		head.mem[key] = x.vc.fresh("havoc_"+sanitize(key), x.keys[key].sort)
		x.enc.unsupported("loop havocs the whole heap array " + key + " (write target not loop-invariant): invariants must restate what is needed")
	}
	switch h.kind {
	case "all":
		for _, k := range sortedKeys(x.keys) {
			if strings.HasPrefix(k, "H:") || strings.HasPrefix(k, "Elems:") || strings.HasPrefix(k, "Box:") || strings.HasPrefix(k, "Map") {
				whole(k)
			}
		}
	case "field":
		key := x.fieldKey(h.typ, h.field)
		bv, ok, fresh := x.resolveBase(fr, li, pre, h.base, cells)
		if fresh {
			return
		}
		if !ok {
			whole(key)
			return
		}
		ref := x.refOf(bv, h.typ)
		ft := h.typ.Underlying().(*types.Struct).Field(h.field).Type()
		nv := x.vc.fresh("lf_"+h.typ.Underlying().(*types.Struct).Field(h.field).Name(), x.enc.sortOf(ft))
		head.mem[key] = x.vc.define("h", mkStore(x.get(head, key), ref, nv))
		x.assumeWF(head, nv, ft)
	case "elemsOfField":
		bv, ok, fresh := x.resolveBase(fr, li, pre, h.base, cells)
		if fresh {
			return
		}
		es := x.enc.sortOf(h.elemT)
		key := x.elemsKey(es)
		if !ok {
			whole(key)
			return
		}
		ref := x.refOf(bv, h.typ)
		fkey := x.fieldKey(h.typ, h.field)
		oldSlice := mkSelect(x.get(pre, fkey), ref, SSlice)
		base := app(SInt, "sbase", oldSlice)
		head.mem[key] = x.vc.define("h", mkStore(x.get(head, key), base, x.vc.fresh("le", arraySort(x.enc.isz(), es))))
		// the (havoced) slice header either still uses that array or a fresh one
		newSlice := mkSelect(x.get(head, fkey), ref, SSlice)
		x.vc.assume(mkOr(mkEq(app(SInt, "sbase", newSlice), base), app(SBool, ">=", app(SInt, "sbase", newSlice), x.get(pre, x.allocKey()))))
	case "elems":
		es := x.enc.sortOf(h.elemT)
		key := x.elemsKey(es)
		bv, ok, fresh := x.resolveBase(fr, li, pre, h.base, cells)
		if fresh {
			return
		}
		if !ok {
			whole(key)
			return
		}
		var base Term
		switch b := bv.(type) {
		case Term:
			if b.Sort == SSlice {
				base = app(SInt, "sbase", b)
			} else {
				base = b
			}
		case *PtrV:
			base = b.ref
		default:
			whole(key)
			return
		}
		head.mem[key] = x.vc.define("h", mkStore(x.get(head, key), base, x.vc.fresh("le", arraySort(x.enc.isz(), es))))
	case "box":
		s := x.enc.sortOf(h.typ)
		key := x.boxKey(s)
		bv, ok, fresh := x.resolveBase(fr, li, pre, h.base, cells)
		if fresh {
			return
		}
		if !ok {
			whole(key)
			return
		}
		var ref Term
		switch b := bv.(type) {
		case Term:
			ref = b
		case *PtrV:
			ref = b.ref
		}
		nv := x.vc.fresh("lb", s)
		head.mem[key] = x.vc.define("h", mkStore(x.get(head, key), ref, nv))
		x.assumeWF(head, nv, h.typ)
	case "map":
		mt := h.typ.Underlying().(*types.Map)
		has, getk, lenk := x.mapKeys(x.enc.sortOf(mt.Key()), x.enc.sortOf(mt.Elem()))
		_, ok, fresh := x.resolveBase(fr, li, pre, h.base, cells)
		if fresh {
			return
		}
		_ = ok
		for _, k := range []string{has, getk, lenk} {
			whole(k)
		}
	case "global":
		p := x.globalPtr(h.glob)
		head.mem[p.key] = x.vc.fresh("lg", x.keys[p.key].sort)
	}
}

func (x *X) refOf(v SV, structT types.Type) Term {
	switch b := v.(type) {
	case Term:
		return b
	case *PtrV:
		return b.ref
	}
	return x.asTerm(v, nil)
}

func (x *X) scanDyn(cc *ssa.CallCommon, eff *loopEff) {
	sig := cc.Signature()
	for _, pkg := range sortedPkgs(x.prog) {
		if pkg.Pkg == nil || !isModulePkg(pkg.Pkg.Path(), x.module) {
			continue
		}
		var cands []*ssa.Function
		for _, m := range sortedMembers(pkg) {
			if f, ok := m.(*ssa.Function); ok {
				cands = append(cands, f)
				cands = append(cands, f.AnonFuncs...)
			}
		}
		for _, f := range cands {
			if f.Signature.Recv() != nil || !types.Identical(stripRecv(f.Signature), stripRecv(sig)) {
				continue
			}
			var sub loopEff
			for _, b := range f.Blocks {
				for _, in := range b.Instrs {
					x.scanInstr(f, in, &sub, 1)
				}
			}
			for _, h := range sub.heap {
				if h.kind != "field" {
					continue
				}
				pi := paramIndex(f, h.base)
				if pi < 0 || pi >= len(cc.Args) {
					continue
				}
				h.base = cc.Args[pi]
				eff.heap = append(eff.heap, h)
			}
		}
	}
}
