package main

// Symbolic execution of go/ssa (naive form) functions into a passive-form VC.

import (
	"fmt"
	"go/token"
	"go/types"
	"math/big"
	"sort"
	"strings"

	"golang.org/x/tools/go/ssa"
)

// SV is a symbolic value: Term, *PtrV, TupleV, *ClosV, *IterV
type SV interface{}

type TupleV []SV

type ClosV struct {
	fn    *ssa.Function
	binds []SV
	recv  SV // bound method receiver (fn is the method), nil otherwise
}

type IterV struct {
	kind string // "mapvalues", "mapkeys"
	m    Term
}

const (
	pkLocal = iota
	pkGlobal
	pkObj
	pkBox
	pkElem
)

type PtrV struct {
	kind   int
	key    string
	ref    Term
	idx    Term
	typ    types.Type // type of root content
	path   []int
	nonNil bool
	arrIdx Term // element of an array value held in a local/global cell
}

func (p *PtrV) pointee() types.Type {
	t := p.typ
	for _, i := range p.path {
		t = t.Underlying().(*types.Struct).Field(i).Type()
	}
	return t
}

type State struct {
	mem   map[string]Term
	reach Term
}

func (s *State) clone() *State {
	m := make(map[string]Term, len(s.mem))
	for k, v := range s.mem {
		m[k] = v
	}
	return &State{mem: m, reach: s.reach}
}

type keyInfo struct {
	sort Sort
	init func() Term
}

type deferEntry struct {
	cond Term
	fn   SV
	args []SV
	call *ssa.CallCommon
}

type Frame struct {
	id      int
	fn      *ssa.Function
	vals    map[ssa.Value]SV
	params  []SV
	free    []SV
	defers  []deferEntry
	depth   int
	parent  *Frame
	name    string
	retSts  []*State
	retVals [][]SV
	// loop bookkeeping (top-level only)
	inLoop map[*ssa.BasicBlock]int // block -> loop ordinal (innermost), 0 if none
	// ghost restore cells for defers in loops
	loopDefers bool
}

type X struct {
	// instantiation hints: universally quantified preconditions assumed at the
	// entry of the function under verification, as functions of the bound
	// variable; instantiated at slice element reads (sym_instr.go indexAddr)
	bigDeclared    bool // bigmodel.go
	recordForalls  bool
	assumedForalls []func(Term) Term
	instDone       map[string]bool
	externGlobal   int
	prog           *ssa.Program
	vc             *VC
	enc            *Enc
	db             *ContractDB
	top            *ssa.Function
	topC           *Contract
	frameSeq       int
	keys           map[string]keyInfo
	closures       map[string]*ClosV
	funcIDs        map[*ssa.Function]Term
	pure           int
	entry          *State
	oldStack       []*State
	props          []string
	module         string
	inlined        map[string]bool
	havoced        map[string]bool
	sentinel       *sentinels
	stats          struct{ instrs int }
	curPos         token.Pos
	ghostDeferKeys []string
	nilChecked     map[string]bool
	callSiteEnv    *specEnv
	bound          []string
	callSeq        map[string]int
}

const maxInlineDepth = 6

func (x *X) posStr(p token.Pos) string {
	if !p.IsValid() {
		return ""
	}
	ps := x.prog.Fset.Position(p)
	f := ps.Filename
	if i := strings.Index(f, "/repo/"); i >= 0 {
		f = f[i+6:]
	}
	return fmt.Sprintf("%s:%d", f, ps.Line)
}

// ---------------------------------------------------------------------------
// memory keys

func (x *X) get(st *State, key string) Term {
	if v, ok := st.mem[key]; ok {
		return v
	}
	ki, ok := x.keys[key]
	if !ok {
		panic("unknown memory key " + key)
	}
	v := ki.init()
	// initial values are global facts: remember for every state
	x.entryDefault(key, v)
	st.mem[key] = v
	return v
}

var entryDefaults = map[*X]map[string]Term{}

func (x *X) entryDefault(key string, v Term) {
	m := entryDefaults[x]
	if m == nil {
		m = map[string]Term{}
		entryDefaults[x] = m
	}
	m[key] = v
}

func (x *X) defaultOf(key string) Term {
	if m := entryDefaults[x]; m != nil {
		if v, ok := m[key]; ok {
			return v
		}
	}
	ki := x.keys[key]
	v := ki.init()
	x.entryDefault(key, v)
	return v
}

// heapKey registers (once) a symbolic initial array for a heap-like key.
func (x *X) arrayKey(key string, sort Sort) string {
	if _, ok := x.keys[key]; !ok {
		name := "H0_" + sanitize(key)
		declared := false
		x.keys[key] = keyInfo{sort: sort, init: func() Term {
			if !declared {
				x.vc.decl(fmt.Sprintf("(declare-const %s %s)", name, sort))
				declared = true
			}
			return T(sort, name)
		}}
	}
	return key
}

func (x *X) fieldKey(t types.Type, i int) string {
	st := t.Underlying().(*types.Struct)
	key := "H:" + t.String() + "." + st.Field(i).Name()
	return x.arrayKey(key, arraySort(SInt, x.enc.sortOf(st.Field(i).Type())))
}

func (x *X) boxKey(s Sort) string {
	return x.arrayKey("Box:"+string(s), arraySort(SInt, s))
}

func (x *X) elemsKey(s Sort) string {
	return x.arrayKey("Elems:"+string(s), arraySort(SInt, arraySort(x.enc.isz(), s)))
}

func (x *X) mapKeys(keySort, valSort Sort) (has, getk, lenk string) {
	suffix := string(keySort) + ">" + string(valSort)
	has = x.arrayKey("MapHas:"+suffix, arraySort(SInt, arraySort(keySort, SBool)))
	getk = x.arrayKey("MapGet:"+suffix, arraySort(SInt, arraySort(keySort, valSort)))
	lenk = x.arrayKey("MapLen:"+suffix, arraySort(SInt, x.enc.isz()))
	return
}

func (x *X) scalarKey(key string, sort Sort, init func() Term) string {
	if _, ok := x.keys[key]; !ok {
		var cached *Term
		x.keys[key] = keyInfo{sort: sort, init: func() Term {
			if cached == nil {
				v := init()
				cached = &v
			}
			return *cached
		}}
	}
	return key
}

func (x *X) allocKey() string {
	return x.scalarKey("$alloc", SInt, func() Term {
		x.vc.decl("(declare-const alloc0 Int)")
		x.vc.decl("(assert (> alloc0 0))")
		return T(SInt, "alloc0")
	})
}

func (x *X) newRef(st *State, what string) Term {
	k := x.allocKey()
	cur := x.get(st, k)
	r := x.vc.define("ref_"+what, cur)
	st.mem[k] = x.vc.define("alloc", app(SInt, "+", cur, intLit(1)))
	return r
}

func (x *X) ghostKey(name string, sort Sort, init Term) string {
	return x.scalarKey("ghost:"+name, sort, func() Term { return init })
}

// ---------------------------------------------------------------------------
// well-formedness facts for values that enter from memory / parameters

func (x *X) anyRef(v Term) Term {
	if !x.enc.declared["anyref"] {
		x.enc.declared["anyref"] = true
		x.vc.decl("(define-fun anyref ((v Any)) Int (ite ((_ is APtr) v) (aptr v) (ite ((_ is AMap) v) (amap v) (ite ((_ is ASlice) v) (sbase (aslice v)) (ite ((_ is AErr) v) 0 0)))))")
		z := x.enc.intConstW(bigZero, 64).S
		le := "<="
		if x.enc.bv {
			le = "bvsle"
		}
		mx := x.enc.intConstW(big.NewInt(0x3fffffffffffffff), 64).S
		x.vc.decl(fmt.Sprintf("(define-fun wfslice ((s Slice)) Bool (and (<= 0 (sbase s)) (%s %s (soff s)) (%s %s (slen s)) (%s (slen s) (scap s)) (%s (scap s) %s) (%s (soff s) %s)))", le, z, le, z, le, le, mx, le, mx))
		x.vc.decl("(define-fun wfany ((v Any)) Bool (and (<= 0 (anyref v)) (=> ((_ is ASlice) v) (wfslice (aslice v))) (=> ((_ is APtr) v) (< 0 (aptr v))) (=> ((_ is AErr) v) (not (= 0 (aerr v))))))")
	}
	return app(SInt, "anyref", v)
}

// wfFact returns the type invariant of a value of Go type t that was read
// from memory or received as input, relative to the allocation bound.
func (x *X) wfFact(v Term, t types.Type, alloc Term) Term {
	if isErrorType(t) {
		return tTrue
	}
	switch u := t.Underlying().(type) {
	case *types.Basic:
		if _, _, ok := intInfo(t); ok {
			return x.enc.rangeFact(v, t)
		}
		if u.Info()&types.IsString != 0 {
			ln := app(x.enc.isz(), "strlen", v)
			return mkAnd(x.enc.intCmp(token.GEQ, ln, x.enc.intConstW(bigZero, 64), types.Typ[types.Int]),
				x.enc.intCmp(token.LEQ, ln, x.enc.intConstW(big.NewInt(0x3fffffffffffffff), 64), types.Typ[types.Int]))
		}
	case *types.Pointer, *types.Map, *types.Chan:
		return mkAnd(app(SBool, "<=", intLit(0), v), app(SBool, "<", v, alloc))
	case *types.Interface:
		x.anyRef(v)
		return mkAnd(app(SBool, "wfany", v), app(SBool, "<", app(SInt, "anyref", v), alloc))
	case *types.Slice:
		x.anyRef(T(SAny, "ANil"))
		return mkAnd(app(SBool, "wfslice", v), app(SBool, "<", app(SInt, "sbase", v), alloc))
	case *types.Struct:
		if x.enc.isOpaqueStruct(t) {
			return tTrue
		}
		var fs []Term
		for i := 0; i < u.NumFields(); i++ {
			fs = append(fs, x.wfFact(x.enc.structField(t, v, i), u.Field(i).Type(), alloc))
		}
		return mkAnd(fs...)
	}
	return tTrue
}

func (x *X) assumeWF(st *State, v Term, t types.Type) {
	f := x.wfFact(v, t, x.get(st, x.allocKey()))
	if f.S != "true" {
		x.vc.assume(f)
	}
}

// ---------------------------------------------------------------------------
// obligations

func (x *X) obligation(st *State, kind, label string, goal Term, pos token.Pos, text string, props []string) {
	if x.pure > 0 {
		return
	}
	name := fmt.Sprintf("%s/%s", x.topName(), kind)
	if label != "" {
		name += ":" + label
	}
	g := mkImplies(st.reach, goal)
	if g.S == "true" {
		// trivially discharged; still count it so obligation sets are stable
	}
	explicit := props != nil
	if props == nil {
		props = x.props
	}
	if x.topC != nil && label != "" {
		// labels of call-site obligations carry the callee and ordinal first
		base := label
		if i := strings.LastIndex(base, ":"); i >= 0 {
			base = base[i+1:]
		}
		if extra := x.topC.AlsoProps[base]; len(extra) > 0 {
			props = append(append([]string{}, props...), extra...)
		}
	}
	x.vc.oblige(&Obligation{Name: name, Kind: kind, Func: x.topName(), Goal: g, Pos: x.posStr(pos), Text: text, Props: props, Explicit: explicit})
}

func (x *X) topName() string { return funcName(x.top) }

func funcName(fn *ssa.Function) string {
	if fn == nil {
		return "?"
	}
	s := fn.String()
	s = strings.ReplaceAll(s, "github.com/theory/sqljson/path/", "")
	s = strings.ReplaceAll(s, "github.com/theory/sqljson/", "")
	return s
}

var safetySeq = map[*X]map[string]int{}

func (x *X) safety(st *State, fr *Frame, what string, goal Term, pos token.Pos) {
	if x.pure > 0 {
		return
	}
	if goal.S == "true" {
		return
	}
	m := safetySeq[x]
	if m == nil {
		m = map[string]int{}
		safetySeq[x] = m
	}
	lbl := what
	if fr != nil && fr.fn != x.top {
		lbl = what + "@" + funcName(fr.fn)
	}
	m[lbl]++
	label := fmt.Sprintf("%s#%d", lbl, m[lbl])
	x.obligation(st, "safety", label, goal, pos, what, x.safetyProps())
	// after checking, assume it (execution continues only if no panic)
	x.vc.assume(mkImplies(st.reach, goal))
}

func (x *X) safetyProps() []string {
	if x.topC != nil && len(x.topC.SafetyProps) > 0 {
		return x.topC.SafetyProps
	}
	// a function under contract in a package with a safety sweep: its safety
	// obligations count for its own properties and for the sweep's
	if x.top != nil && x.top.Pkg != nil {
		for pkg, sw := range x.db.sweeps {
			if pkg.Types == x.top.Pkg.Pkg && len(sw.Props) > 0 {
				out := append([]string{}, x.props...)
				for _, q := range sw.Props {
					if !contains(out, q) {
						out = append(out, q)
					}
				}
				return out
			}
		}
	}
	return x.props
}

// ---------------------------------------------------------------------------
// running a function

type edge struct{ from, to *ssa.BasicBlock }

type loopInfo struct {
	header  *ssa.BasicBlock
	ordinal int
	body    map[*ssa.BasicBlock]bool
	back    []*ssa.BasicBlock
}

func rpo(fn *ssa.Function) []*ssa.BasicBlock {
	seen := map[*ssa.BasicBlock]bool{}
	var post []*ssa.BasicBlock
	var dfs func(b *ssa.BasicBlock)
	dfs = func(b *ssa.BasicBlock) {
		seen[b] = true
		for _, s := range b.Succs {
			if !seen[s] {
				dfs(s)
			}
		}
		post = append(post, b)
	}
	dfs(fn.Blocks[0])
	for i, j := 0, len(post)-1; i < j; i, j = i+1, j-1 {
		post[i], post[j] = post[j], post[i]
	}
	return post
}

func findLoops(fn *ssa.Function) []*loopInfo {
	order := rpo(fn)
	idx := map[*ssa.BasicBlock]int{}
	for i, b := range order {
		idx[b] = i
	}
	byHeader := map[*ssa.BasicBlock]*loopInfo{}
	for _, b := range order {
		for _, s := range b.Succs {
			if s.Dominates(b) {
				li := byHeader[s]
				if li == nil {
					li = &loopInfo{header: s, body: map[*ssa.BasicBlock]bool{s: true}}
					byHeader[s] = li
				}
				li.back = append(li.back, b)
				// collect body: blocks reaching b without passing s
				var stack []*ssa.BasicBlock
				if !li.body[b] {
					li.body[b] = true
					stack = append(stack, b)
				}
				for len(stack) > 0 {
					n := stack[len(stack)-1]
					stack = stack[:len(stack)-1]
					for _, p := range n.Preds {
						if !li.body[p] {
							li.body[p] = true
							stack = append(stack, p)
						}
					}
				}
			}
		}
	}
	var loops []*loopInfo
	for _, li := range byHeader {
		loops = append(loops, li)
	}
	// ordinal by source position of the header's first positioned instruction,
	// falling back to block index
	sort.Slice(loops, func(i, j int) bool {
		pi, pj := loopPos(loops[i]), loopPos(loops[j])
		if pi != pj {
			return pi < pj
		}
		return idx[loops[i].header] < idx[loops[j].header]
	})
	for i, li := range loops {
		li.ordinal = i + 1
	}
	return loops
}

func loopPos(li *loopInfo) token.Pos {
	best := token.Pos(0)
	for b := range li.body {
		for _, in := range b.Instrs {
			if _, ok := in.(*ssa.DebugRef); ok {
				continue
			}
			if p := in.Pos(); p.IsValid() && (best == 0 || p < best) {
				best = p
			}
		}
	}
	return best
}

func hasLoops(fn *ssa.Function) bool {
	for _, b := range fn.Blocks {
		for _, s := range b.Succs {
			if s.Dominates(b) {
				return true
			}
		}
	}
	return false
}

func (x *X) newFrame(fn *ssa.Function, parent *Frame) *Frame {
	x.frameSeq++
	fr := &Frame{id: x.frameSeq, fn: fn, vals: map[ssa.Value]SV{}, parent: parent, name: funcName(fn)}
	if parent != nil {
		fr.depth = parent.depth + 1
	}
	return fr
}

// run executes fn's body from state st with the given params/free vars and
// returns the merged return values and state. st is consumed.
func (x *X) run(fr *Frame, st *State) ([]SV, *State) {
	fn := fr.fn
	if len(fn.Blocks) == 0 {
		x.enc.unsupported("function without body: " + fn.String())
		return x.havocResults(fn.Signature, st), st
	}
	for i, p := range fn.Params {
		fr.vals[p] = fr.params[i]
	}
	for i, fv := range fn.FreeVars {
		fr.vals[fv] = fr.free[i]
	}
	loops := findLoops(fn)
	if len(loops) > 0 && fr.parent != nil {
		panic("internal: inlining a function with loops: " + fn.String())
	}
	headers := map[*ssa.BasicBlock]*loopInfo{}
	for _, li := range loops {
		headers[li.header] = li
	}
	// does any defer sit inside a loop?
	for _, li := range loops {
		for b := range li.body {
			for _, in := range b.Instrs {
				if _, ok := in.(*ssa.Defer); ok {
					fr.loopDefers = true
				}
			}
		}
	}
	order := rpo(fn)
	edgeSt := map[edge]*State{}
	entrySt := map[*ssa.BasicBlock]*State{}
	for _, b := range order {
		if b.Comment == "recover" && len(b.Preds) == 0 && b != fn.Blocks[0] {
			continue
		}
		var cur *State
		if b == fn.Blocks[0] {
			cur = st
		} else {
			var ins []*State
			var backs []*State
			_ = backs
			for _, p := range b.Preds {
				if li := headers[b]; li != nil && li.body[p] {
					continue // back edge: handled when p is finished
				}
				if es := edgeSt[edge{p, b}]; es != nil {
					ins = append(ins, es)
				}
			}
			if len(ins) == 0 {
				continue // unreachable
			}
			cur = x.merge(ins)
		}
		if li := headers[b]; li != nil {
			cur = x.enterLoop(fr, li, cur)
		}
		entrySt[b] = cur
		// phis first
		x.execBlock(fr, b, cur, edgeSt, headers)
	}
	// merge returns
	if len(fr.retSts) == 0 {
		dead := st.clone()
		dead.reach = tFalse
		return x.havocResults(fn.Signature, dead), dead
	}
	out := x.merge(fr.retSts)
	n := fn.Signature.Results().Len()
	rets := make([]SV, n)
	for i := 0; i < n; i++ {
		var vs []SV
		for _, rv := range fr.retVals {
			vs = append(vs, rv[i])
		}
		rets[i] = x.mergeSV(fr.retSts, vs, fmt.Sprintf("ret%d", i))
	}
	return rets, out
}

func (x *X) havocResults(sig *types.Signature, st *State) []SV {
	n := sig.Results().Len()
	rets := make([]SV, n)
	for i := 0; i < n; i++ {
		t := sig.Results().At(i).Type()
		v := x.vc.fresh("res", x.enc.sortOf(t))
		x.assumeWF(st, v, t)
		rets[i] = v
	}
	return rets
}

// merge joins states of mutually exclusive incoming edges.
func (x *X) merge(ins []*State) *State {
	if len(ins) == 1 {
		return ins[0].clone()
	}
	out := &State{mem: map[string]Term{}}
	var rs []Term
	for _, s := range ins {
		rs = append(rs, s.reach)
	}
	out.reach = x.vc.define("reach", mkOr(rs...))
	keys := map[string]bool{}
	for _, s := range ins {
		for k := range s.mem {
			keys[k] = true
		}
	}
	ks := make([]string, 0, len(keys))
	for k := range keys {
		ks = append(ks, k)
	}
	sort.Strings(ks)
	for _, k := range ks {
		var vals []Term
		same := true
		for _, s := range ins {
			v, ok := s.mem[k]
			if !ok {
				if strings.HasPrefix(k, "L") {
					// local cell not yet allocated on this path: irrelevant there
					vals = append(vals, Term{})
					continue
				}
				v = x.defaultOf(k)
			}
			vals = append(vals, v)
		}
		var first *Term
		for i := range vals {
			if vals[i].S == "" {
				continue
			}
			if first == nil {
				first = &vals[i]
			} else if vals[i].S != first.S {
				same = false
			}
		}
		if first == nil {
			continue
		}
		if same {
			out.mem[k] = *first
			continue
		}
		acc := *first
		// build ite chain from the end
		started := false
		for i := len(vals) - 1; i >= 0; i-- {
			if vals[i].S == "" {
				continue
			}
			if !started {
				acc = vals[i]
				started = true
				continue
			}
			acc = mkIte(ins[i].reach, vals[i], acc)
		}
		out.mem[k] = x.vc.define("m_"+k, acc)
	}
	return out
}

func (x *X) mergeSV(sts []*State, vs []SV, name string) SV {
	if len(vs) == 1 {
		return vs[0]
	}
	allTerm := true
	for _, v := range vs {
		if _, ok := v.(Term); !ok {
			allTerm = false
		}
	}
	if allTerm {
		acc := vs[len(vs)-1].(Term)
		for i := len(vs) - 2; i >= 0; i-- {
			acc = mkIte(sts[i].reach, vs[i].(Term), acc)
		}
		return x.vc.define(name, acc)
	}
	// tuples
	if t0, ok := vs[0].(TupleV); ok {
		out := make(TupleV, len(t0))
		for j := range t0 {
			var col []SV
			for _, v := range vs {
				col = append(col, v.(TupleV)[j])
			}
			out[j] = x.mergeSV(sts, col, fmt.Sprintf("%s_%d", name, j))
		}
		return out
	}
	// closures with the same code
	if c0, ok := vs[0].(*ClosV); ok {
		same := true
		for _, v := range vs {
			c, ok := v.(*ClosV)
			if !ok || c.fn != c0.fn || len(c.binds) != len(c0.binds) {
				same = false
			}
		}
		if same {
			out := &ClosV{fn: c0.fn, binds: make([]SV, len(c0.binds))}
			for j := range c0.binds {
				var col []SV
				for _, v := range vs {
					col = append(col, v.(*ClosV).binds[j])
				}
				out.binds[j] = x.mergeSV(sts, col, fmt.Sprintf("%s_b%d", name, j))
			}
			if c0.recv != nil {
				var col []SV
				for _, v := range vs {
					col = append(col, v.(*ClosV).recv)
				}
				out.recv = x.mergeSV(sts, col, name+"_recv")
			}
			return out
		}
	}
	if p0, ok := vs[0].(*PtrV); ok {
		same := true
		for _, v := range vs {
			p, ok := v.(*PtrV)
			if !ok || p.kind != p0.kind || p.key != p0.key || fmt.Sprint(p.path) != fmt.Sprint(p0.path) || !types.Identical(p.typ, p0.typ) {
				same = false
			}
		}
		if same {
			out := *p0
			if p0.kind == pkObj || p0.kind == pkBox || p0.kind == pkElem {
				var col []SV
				for _, v := range vs {
					col = append(col, v.(*PtrV).ref)
				}
				out.ref = x.mergeSV(sts, col, name+"_ref").(Term)
			}
			if p0.kind == pkElem {
				var col []SV
				for _, v := range vs {
					col = append(col, v.(*PtrV).idx)
				}
				out.idx = x.mergeSV(sts, col, name+"_idx").(Term)
			}
			out.nonNil = false
			return &out
		}
		// fall back to terms
		var ts []SV
		okAll := true
		for _, v := range vs {
			t, ok := x.ptrTerm(v.(*PtrV))
			if !ok {
				okAll = false
			}
			ts = append(ts, t)
		}
		if okAll {
			return x.mergeSV(sts, ts, name)
		}
	}
	// mixed closures / terms: convert closures to ids
	var ts []SV
	for _, v := range vs {
		ts = append(ts, x.asTerm(v, nil))
	}
	return x.mergeSV(sts, ts, name)
}
