package main

// Object invariants (`//@ objinv <Type> [props] label: expr over self`).
//
// An object invariant talks about the fields of ONE object of a module struct
// type T (`self` is the *T) and nothing else. The methodology is the classic
// visible-state one, specialised to what this code base does:
//
//   * an OWNER of T is a function that allocates a T on the heap, stores to a
//     field of T that an invariant of T reads, or stores a whole T through a
//     pointer. Owners are found mechanically in the SSA of every module
//     function on every run; nothing is assumed about them.
//   * in an owner, every object it allocated or wrote ("dirty") must satisfy
//     every invariant of T at each call it makes, at each return, and when the
//     SSA value naming the object goes out of scope (an edge that leaves the
//     dominance region of its definition, which includes loop back edges).
//     These are obligations of kind `objinv`.
//   * in code that is not an owner of T, inv(o) is assumed for a *T parameter at
//     entry and for the base object of every field read of an invariant field.
//
// Soundness: T objects are created, and the fields an invariant reads are
// written, by owners only (that is the definition of an owner); an owner
// re-establishes the invariant of every object it touched before control
// leaves it; the invariant of an object depends on that object alone. Hence
// every T object visible to non-owner code satisfies it. Left to trust:
// no writes through reflection or unsafe, and T is never embedded by value in
// another allocated type (checked: reported as unsupported otherwise).

import (
	"fmt"
	"go/token"
	"go/types"
	"regexp"
	"sort"

	"golang.org/x/tools/go/packages"
	"golang.org/x/tools/go/ssa"
)

type objInv struct {
	label  string
	props  []string
	line   string
	clause *Clause
	pkg    *packages.Package
	fields map[string]bool // names of the fields of self the expression reads
}

var selfFieldRe = regexp.MustCompile(`\bself\.([A-Za-z_][A-Za-z0-9_]*)`)

func newObjInv(pkg *packages.Package, label, text string, props []string, where string) *objInv {
	oi := &objInv{label: label, props: props, line: where, pkg: pkg, fields: map[string]bool{},
		clause: &Clause{Kind: "objinv", Label: label, Text: text, Props: props, Line: "objinv:" + where}}
	for _, m := range selfFieldRe.FindAllStringSubmatch(text, -1) {
		oi.fields[m[1]] = true
	}
	return oi
}

func typeKeyOf(t types.Type) (string, *types.Named) {
	n, ok := t.(*types.Named)
	if !ok || n.Obj().Pkg() == nil {
		return "", nil
	}
	if _, isStruct := n.Underlying().(*types.Struct); !isStruct {
		return "", nil
	}
	return n.Obj().Pkg().Path() + "." + n.Obj().Name(), n
}

// objInvsOfPtr: invariants of T when t is *T.
func (db *ContractDB) objInvsOfPtr(t types.Type) ([]*objInv, *types.Named) {
	if len(db.objInvs) == 0 {
		return nil, nil
	}
	pt, ok := t.Underlying().(*types.Pointer)
	if !ok {
		return nil, nil
	}
	k, n := typeKeyOf(pt.Elem())
	if n == nil {
		return nil, nil
	}
	return db.objInvs[k], n
}

func (db *ContractDB) invFieldOf(invs []*objInv, n *types.Named, field int) bool {
	name := n.Underlying().(*types.Struct).Field(field).Name()
	for _, oi := range invs {
		if oi.fields[name] {
			return true
		}
	}
	return false
}

// ownerInfo: for each type with invariants, the SSA values of fn that name
// objects fn allocates or writes. Static, cached.
type dirtyVal struct {
	v    ssa.Value
	key  string
	invs []*objInv
}

var ownerCache = map[*ssa.Function][]dirtyVal{}

func (db *ContractDB) ownerInfo(fn *ssa.Function) []dirtyVal {
	if len(db.objInvs) == 0 || fn == nil {
		return nil
	}
	if d, ok := ownerCache[fn]; ok {
		return d
	}
	var out []dirtyVal
	seen := map[ssa.Value]bool{}
	add := func(v ssa.Value, ptrT types.Type) {
		invs, n := db.objInvsOfPtr(ptrT)
		if len(invs) == 0 || seen[v] {
			return
		}
		seen[v] = true
		k, _ := typeKeyOf(n)
		out = append(out, dirtyVal{v: v, key: k, invs: invs})
	}
	for _, b := range fn.Blocks {
		for _, in := range b.Instrs {
			switch in := in.(type) {
			case *ssa.Alloc:
				if in.Heap {
					add(in, in.Type())
				}
			case *ssa.Store:
				if fa, ok := in.Addr.(*ssa.FieldAddr); ok {
					if invs, n := db.objInvsOfPtr(fa.X.Type()); len(invs) > 0 && db.invFieldOf(invs, n, fa.Field) {
						add(fa.X, fa.X.Type())
					}
				} else if _, isAlloc := in.Addr.(*ssa.Alloc); !isAlloc {
					add(in.Addr, in.Addr.Type()) // whole-object store through a *T
				}
			}
		}
	}
	ownerCache[fn] = out
	return out
}

func (db *ContractDB) isOwnerOf(fn *ssa.Function, key string) bool {
	for _, d := range db.ownerInfo(fn) {
		if d.key == key {
			return true
		}
	}
	return false
}

// objInvTerm evaluates one invariant for the object sv (a *T) in state st.
func (x *X) objInvTerm(oi *objInv, n *types.Named, st *State, sv SV) (t Term, ok bool) {
	ptrT := types.NewPointer(n)
	resolve := func(name string) (types.Type, bool) {
		if name == "self" {
			return ptrT, true
		}
		return nil, false
	}
	cl := oi.clause
	if err := x.db.compile(cl, oi.pkg, resolve); err != nil {
		x.db.errorf("%v", err)
		return tTrue, false
	}
	env := &specEnv{x: x, st: st, old: nil, vars: map[string]SV{"self": sv}}
	env.info = cl.info
	env.where = cl.Line
	x.pure++
	defer func() {
		x.pure--
		if r := recover(); r != nil {
			if se, isSE := r.(specError); isSE {
				x.db.errorf("%s", se.msg)
				t, ok = tTrue, false
				return
			}
			panic(r)
		}
	}()
	return env.evalBool(cl.expr), true
}

func (x *X) svNonNil(sv SV) Term {
	switch v := sv.(type) {
	case Term:
		return mkNot(mkEq(v, intLit(0)))
	case *PtrV:
		if v.nonNil || v.kind == pkLocal || v.kind == pkGlobal {
			return tTrue
		}
		if t, ok := x.ptrTerm(v); ok {
			return mkNot(mkEq(t, intLit(0)))
		}
	}
	return tTrue
}

// objInvAssume: non-owner code may rely on the invariants of the *T value sv.
func (x *X) objInvAssume(fr *Frame, st *State, sv SV, ptrT types.Type, field int) {
	invs, n := x.db.objInvsOfPtr(ptrT)
	if len(invs) == 0 {
		return
	}
	if field >= 0 && !x.db.invFieldOf(invs, n, field) {
		return
	}
	k, _ := typeKeyOf(n)
	// field < 0: a parameter at entry. Every object that exists when a function
	// is entered satisfies its invariants (callers re-establish them before
	// they call), so owners may rely on this too; after that an owner relies
	// on nothing, since the object read may be one it has written.
	if field >= 0 && x.db.isOwnerOf(fr.fn, k) {
		return
	}
	if p, isP := sv.(*PtrV); isP && (p.kind != pkObj || len(p.path) != 0) {
		return
	}
	for _, oi := range invs {
		t, ok := x.objInvTerm(oi, n, st, sv)
		if !ok {
			continue
		}
		x.vc.assume(mkImplies(mkAnd(st.reach, x.svNonNil(sv)), t))
		x.enc.assumption(fmt.Sprintf("OBJECT INVARIANT %s (%s) relied on in non-owner code; established by the owners of the type (obligations objinv:* of %s)", k, oi.label, ownersList(x.db, x.prog, k)))
	}
}

var ownersListCache = map[string]string{}

func ownersList(db *ContractDB, prog *ssa.Program, key string) string {
	if s, ok := ownersListCache[key]; ok {
		return s
	}
	var names []string
	for _, fn := range allModuleFunctions(prog, db) {
		if db.isOwnerOf(fn, key) {
			names = append(names, funcName(fn))
		}
	}
	sort.Strings(names)
	s := fmt.Sprint(names)
	ownersListCache[key] = s
	return s
}

func instrIndex(b *ssa.BasicBlock, in ssa.Instruction) int {
	for i, x := range b.Instrs {
		if x == in {
			return i
		}
	}
	return -1
}

// objInvCheck: obligations for the dirty objects of an owner at a point where
// control leaves it (a call, a return) or where the SSA name of the object
// goes out of scope (succ != nil: the edge b -> succ).
func (x *X) objInvCheck(fr *Frame, st *State, b *ssa.BasicBlock, at ssa.Instruction, succ *ssa.BasicBlock, where string) {
	ds := x.db.ownerInfo(fr.fn)
	if len(ds) == 0 || x.pure > 0 {
		return
	}
	atIdx := instrIndex(b, at)
	for _, d := range ds {
		scopeAll := false
		var db_ *ssa.BasicBlock
		switch v := d.v.(type) {
		case *ssa.Parameter, *ssa.FreeVar:
			scopeAll = true
		case ssa.Instruction:
			db_ = v.Block()
		default:
			scopeAll = true
		}
		if !scopeAll {
			if db_ == b {
				if instrIndex(b, d.v.(ssa.Instruction)) >= atIdx {
					continue
				}
			} else if !db_.Dominates(b) {
				continue
			}
		}
		if succ != nil {
			if scopeAll || (db_ != succ && db_.Dominates(succ)) {
				continue // still in scope after the edge
			}
		}
		sv, have := fr.vals[d.v]
		if !have {
			if scopeAll {
				sv = x.val(fr, d.v)
			} else {
				continue
			}
		}
		_, n := x.db.objInvsOfPtr(d.v.Type())
		for _, oi := range d.invs {
			t, ok := x.objInvTerm(oi, n, st, sv)
			if !ok {
				continue
			}
			m := safetySeq[x]
			if m == nil {
				m = map[string]int{}
				safetySeq[x] = m
			}
			lbl := fmt.Sprintf("%s.%s@%s", n.Obj().Name(), oi.label, where)
			if fr.fn != x.top {
				lbl += "@" + funcName(fr.fn)
			}
			m["objinv:"+lbl]++
			if c := m["objinv:"+lbl]; c > 1 {
				lbl = fmt.Sprintf("%s#%d", lbl, c)
			}
			props := oi.props
			x.obligation(st, "objinv", lbl, mkImplies(x.svNonNil(sv), t), token.NoPos, oi.clause.Text, props)
		}
	}
}

// objInvUnsupported: shapes the methodology does not cover are reported, never
// silently accepted.
func (x *X) objInvStaticChecks(fn *ssa.Function) {
	if len(x.db.ownerInfo(fn)) == 0 {
		return
	}
	for _, b := range fn.Blocks {
		for _, in := range b.Instrs {
			switch in.(type) {
			case *ssa.Defer, *ssa.Go:
				x.enc.unsupported("objinv: owner " + funcName(fn) + " defers or starts a goroutine; dirty objects are not checked there")
			}
		}
	}
}

var allModFnCache []*ssa.Function

// allModuleFunctions: every function and method (with their closures) of the
// module's non-test, non-contract files, in a fixed order.
func allModuleFunctions(prog *ssa.Program, db *ContractDB) []*ssa.Function {
	if allModFnCache != nil {
		return allModFnCache
	}
	seen := map[*ssa.Function]bool{}
	var out []*ssa.Function
	var addFn func(f *ssa.Function)
	addFn = func(f *ssa.Function) {
		if f == nil || seen[f] || len(f.Blocks) == 0 {
			return
		}
		seen[f] = true
		fname := prog.Fset.Position(f.Pos()).Filename
		if len(fname) > 8 && (fname[len(fname)-8:] == "_test.go" || (len(fname) > 9 && fname[len(fname)-9:] == "_verif.go")) {
			return
		}
		out = append(out, f)
		for _, a := range f.AnonFuncs {
			addFn(a)
		}
	}
	for _, pkg := range sortedPkgs(prog) {
		if pkg.Pkg == nil || !isModulePkg(pkg.Pkg.Path(), modulePath) {
			continue
		}
		for _, m := range sortedMembers(pkg) {
			switch m := m.(type) {
			case *ssa.Function:
				addFn(m)
			case *ssa.Type:
				for _, t := range []types.Type{m.Type(), types.NewPointer(m.Type())} {
					ms := prog.MethodSets.MethodSet(t)
					for i := 0; i < ms.Len(); i++ {
						if f := prog.MethodValue(ms.At(i)); f != nil && f.Synthetic == "" {
							addFn(f)
						}
					}
				}
			}
		}
	}
	allModFnCache = out
	return out
}

// objInvHoles: owners that no run of this engine checks, and by-value uses of
// a type with invariants. Each is a reason not to trust the invariants.
func objInvHoles(prog *ssa.Program, db *ContractDB, checked func(fn *ssa.Function) bool) []string {
	if len(db.objInvs) == 0 {
		return nil
	}
	var holes []string
	for _, fn := range allModuleFunctions(prog, db) {
		ds := db.ownerInfo(fn)
		if len(ds) > 0 && !checked(fn) {
			holes = append(holes, fmt.Sprintf("objinv: %s allocates or writes %s but its body is not checked by any run", funcName(fn), ds[0].key))
		}
		for _, b := range fn.Blocks {
			for _, in := range b.Instrs {
				var el types.Type
				switch in := in.(type) {
				case *ssa.Alloc:
					el = in.Type().Underlying().(*types.Pointer).Elem()
					if k, _ := typeKeyOf(el); k != "" && len(db.objInvs[k]) > 0 {
						el = nil // the type itself: handled as an owner
					}
				case *ssa.MakeSlice:
					el = in.Type().Underlying().(*types.Slice).Elem()
					if k, _ := typeKeyOf(el); k != "" && len(db.objInvs[k]) > 0 {
						holes = append(holes, fmt.Sprintf("objinv: %s makes a slice of %s by value", funcName(fn), k))
					}
				}
				if el != nil && containsInvType(db, el, 0) {
					holes = append(holes, fmt.Sprintf("objinv: %s allocates %s, which holds a type with object invariants by value", funcName(fn), el))
				}
			}
		}
	}
	return holes
}

func containsInvType(db *ContractDB, t types.Type, depth int) bool {
	if depth > 6 {
		return false
	}
	switch u := t.Underlying().(type) {
	case *types.Struct:
		if depth > 0 {
			if k, _ := typeKeyOf(t); k != "" && len(db.objInvs[k]) > 0 {
				return true
			}
		}
		for i := 0; i < u.NumFields(); i++ {
			if containsInvType(db, u.Field(i).Type(), depth+1) {
				return true
			}
		}
	case *types.Array:
		if k, _ := typeKeyOf(u.Elem()); k != "" && len(db.objInvs[k]) > 0 {
			return true
		}
		return containsInvType(db, u.Elem(), depth+1)
	}
	return false
}

// callCannotSeeModuleObjects: a static call of a function outside the module
// whose arguments are all numbers, booleans or strings cannot reach any object
// of the module, so dirty objects need not be valid across it.
func (x *X) callCannotSeeModuleObjects(cc *ssa.CallCommon) bool {
	callee := cc.StaticCallee()
	if callee == nil || cc.IsInvoke() || x.isModuleFn(callee) {
		return false
	}
	for _, a := range cc.Args {
		if _, ok := a.Type().Underlying().(*types.Basic); !ok {
			return false
		}
	}
	return true
}
