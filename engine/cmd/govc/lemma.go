package main

import (
	"fmt"
	"go/types"
	"golang.org/x/tools/go/ssa"
	"strings"
)

// verifyLemma discharges a lemma block: forall-declared variables are fresh
// constants, requires are assumed, each ensures is one obligation. Lemmas
// mention only spec functions (ghost Go functions of the contract files),
// which are evaluated by the same SSA translation as code.
func verifyLemma(w *world, l *Lemma) (obls []*Obligation, errs []string) {
	name := "lemma:" + l.Pkg.Types.Name() + "." + l.Name
	vc := newVC(name)
	x := &X{prog: w.prog, vc: vc, enc: newEnc(vc, l.BV, modulePath), db: w.db,
		keys: map[string]keyInfo{}, closures: map[string]*ClosV{}, funcIDs: map[*ssa.Function]Term{},
		module: modulePath, inlined: map[string]bool{}, havoced: map[string]bool{}, sentinel: w.sent,
		callSeq: map[string]int{}, nilChecked: map[string]bool{}, props: l.Props}
	errBefore := len(w.db.errors)
	defer func() {
		if r := recover(); r != nil {
			errs = append(errs, fmt.Sprintf("engine panic in %s: %v", name, r))
		}
		errs = append(errs, w.db.errors[errBefore:]...)
		obls = vc.obls
		delete(entryDefaults, x)
	}()
	w.sent.declare(x)
	st := &State{mem: map[string]Term{}, reach: tTrue}
	x.get(st, x.allocKey())
	x.entry = st.clone()
	file := w.db.files[l.Pkg]
	if file == nil {
		errs = append(errs, "lemma "+l.Name+": no contract file")
		return
	}
	pos := file.Decls[len(file.Decls)-1].End()
	vars := map[string]SV{}
	vtypes := map[string]types.Type{}
	for _, d := range l.Forall {
		nm, ts, ok := strings.Cut(strings.TrimSpace(d), " ")
		if !ok {
			errs = append(errs, fmt.Sprintf("%s: bad forall declaration %q", l.File, d))
			continue
		}
		tv, err := types.Eval(w.db.fset, l.Pkg.Types, pos, strings.TrimSpace(ts))
		if err != nil {
			errs = append(errs, fmt.Sprintf("%s: bad type in forall %q: %v", l.File, d, err))
			continue
		}
		v := vc.fresh("q_"+nm, x.enc.sortOf(tv.Type))
		x.assumeWF(st, v, tv.Type)
		vars[nm] = v
		vtypes[nm] = tv.Type
		vc.watch = append(vc.watch, v)
	}
	resolve := func(n string) (types.Type, bool) { t, ok := vtypes[n]; return t, ok }
	eval := func(cl *Clause) (Term, bool) {
		if err := w.db.compile(cl, l.Pkg, resolve); err != nil {
			w.db.errorf("%v", err)
			return tTrue, false
		}
		env := &specEnv{x: x, st: st, old: x.entry, vars: vars, info: cl.info, where: cl.Line}
		var t Term
		ok := true
		func() {
			defer func() {
				if r := recover(); r != nil {
					if se, isSE := r.(specError); isSE {
						w.db.errorf("%s", se.msg)
						ok = false
						return
					}
					panic(r)
				}
			}()
			x.pure++
			defer func() { x.pure-- }()
			t = env.evalBool(cl.expr)
		}()
		return t, ok
	}
	for _, cl := range l.Reqs {
		if t, ok := eval(cl); ok {
			vc.assume(t)
		}
	}
	vc.oblige(&Obligation{Name: name + "/cover:requires", Kind: "cover", Func: name, Goal: tTrue, ExpectSat: true, Props: l.Props, Text: "lemma hypotheses satisfiable"})
	for i, cl := range l.Ens {
		if t, ok := eval(cl); ok {
			lbl := cl.Label
			if lbl == "" {
				lbl = fmt.Sprint(i + 1)
			}
			props := cl.Props
			if props == nil {
				props = l.Props
			}
			vc.oblige(&Obligation{Name: name + "/lemma:" + lbl, Kind: "lemma", Func: name, Goal: t, Props: props, Text: cl.Text, Pos: cl.Line})
		}
	}
	return
}
