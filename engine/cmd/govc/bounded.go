package main

// Bounded stand-ins. Where a function cannot be brought within the verifier's
// reach (the LALR driver of the generated parser), a bounded check of the real
// function with a stated bound may stand in for the missing proof. Such checks
// are kept apart from the proof obligations: they are labelled "bounded", are
// listed separately in the evidence with their bound, and never count as
// discharged obligations. Each is a Go test kept in /verif/bounded/<prop>_*.go.tmpl
// that is injected into the package under test through a build overlay (nothing
// is written to /repo), run against the current tree, and read back line by line:
//
//	BOUNDED-CASES n                 how many inputs were tried
//	BOUNDED-FAIL input=… got=… want=…   one line per failing input

import (
	"encoding/json"
	"fmt"
	"os"
	"os/exec"
	"path/filepath"
	"regexp"
	"strconv"
	"strings"
)

type boundedResult struct {
	Name     string   `json:"name"`
	File     string   `json:"file"`
	Bound    string   `json:"bound"`
	Cases    int      `json:"cases"`
	Failures []string `json:"failures"`
	Output   string   `json:"output,omitempty"`
	Ran      bool     `json:"ran"`
	Known    int      `json:"known_findings"`
	TimeS    float64  `json:"time_s"`
}

func boundedFiles(prop string) []string {
	m, _ := filepath.Glob(filepath.Join(verifDir(), "bounded", prop+"_*.go.tmpl"))
	return m
}

var boundedHdr = regexp.MustCompile(`(?m)^// (bounded|dir|bound): (.*)$`)

// boundedTier is the tier of the running check ("quick" or "thorough").
var boundedTier = "quick"

func runBounded(file string) boundedResult {
	res := boundedResult{File: file}
	src, err := os.ReadFile(file)
	if err != nil {
		res.Output = err.Error()
		return res
	}
	dir := ""
	for _, m := range boundedHdr.FindAllStringSubmatch(string(src), -1) {
		switch m[1] {
		case "bounded":
			res.Name = strings.TrimSpace(m[2])
		case "dir":
			dir = strings.TrimSpace(m[2])
		case "bound":
			res.Bound = strings.TrimSpace(m[2])
		}
	}
	if res.Name == "" || dir == "" {
		res.Output = "bounded check without a '// bounded:' or '// dir:' header"
		return res
	}
	tmp, err := os.MkdirTemp("", "govc-bounded-")
	if err != nil {
		res.Output = err.Error()
		return res
	}
	defer os.RemoveAll(tmp)
	testFile := filepath.Join(tmp, "zz_govc_bounded_test.go")
	if err := os.WriteFile(testFile, src, 0o644); err != nil {
		res.Output = err.Error()
		return res
	}
	abs, _ := filepath.Abs(filepath.Join(repoDir(), dir))
	ov, _ := json.Marshal(map[string]any{"Replace": map[string]string{filepath.Join(abs, "zz_govc_bounded_test.go"): testFile}})
	ovFile := filepath.Join(tmp, "ov.json")
	_ = os.WriteFile(ovFile, ov, 0o644)
	// the thorough tier lets a stand-in add a seeded random exploration to its fixed grid
	limit := "120s"
	if boundedTier == "thorough" {
		limit = "900s"
	}
	cmd := exec.Command("go", "test", "-overlay", ovFile, "-vet=off", "-count=1", "-v", "-timeout", limit, "-run", "^TestGovcBounded$", "./"+dir)
	cmd.Dir = repoDir()
	cmd.Env = append(os.Environ(), "GOFLAGS=-mod=mod", "GOPROXY=off", "GOSUMDB=off", "GOTOOLCHAIN=local", "GOVC_TIER="+boundedTier)
	out, _ := cmd.CombinedOutput()
	text := string(out)
	for _, ln := range strings.Split(text, "\n") {
		switch {
		case strings.HasPrefix(ln, "BOUNDED-CASES "):
			res.Cases, _ = strconv.Atoi(strings.TrimSpace(strings.TrimPrefix(ln, "BOUNDED-CASES ")))
			res.Ran = true
		case strings.HasPrefix(ln, "BOUNDED-FAIL "):
			res.Failures = append(res.Failures, strings.TrimPrefix(ln, "BOUNDED-FAIL "))
		}
	}
	if !res.Ran {
		// the test did not reach its end: build failure, panic, or timeout
		res.Output = truncate(text, 3000)
		if strings.Contains(text, "panic:") || strings.Contains(text, "--- FAIL") {
			res.Failures = append(res.Failures, "the bounded test did not complete: "+firstLine(text, "panic:"))
		}
	}
	return res
}

func firstLine(text, marker string) string {
	for _, ln := range strings.Split(text, "\n") {
		if strings.Contains(ln, marker) {
			return strings.TrimSpace(ln)
		}
	}
	return ""
}

// boundedFor runs the bounded stand-ins registered for prop and reports their
// failures as violations with the failing inputs in the replay file.
func boundedFor(prop string, noEvidence bool) (results []boundedResult, violations int) {
	for _, f := range boundedFiles(prop) {
		r := runBounded(f)
		results = append(results, r)
		if !r.Ran && len(r.Failures) == 0 {
			fmt.Printf("BOUNDED-CHECK %s did not run: %s\n", filepath.Base(f), truncate(strings.ReplaceAll(r.Output, "\n", " | "), 300))
			continue
		}
		// failures on inputs that the known-findings file lists for this check
		var fresh []string
		nKnown := 0
		for _, fl := range r.Failures {
			if kf := knownBounded(prop, r.Name, fl); kf != nil {
				nKnown++
				fmt.Printf("KNOWN-FINDING: property=%s bounded:%s input=%s: %s\n", prop, r.Name, strconv.Quote(kf.Witness), kf.What)
				continue
			}
			fresh = append(fresh, fl)
		}
		fmt.Printf("BOUNDED-CHECK %s cases=%d failures=%d known=%d (bounded stand-in, not a proof: %s)\n", r.Name, r.Cases, len(fresh), nKnown, truncate(r.Bound, 120))
		results[len(results)-1].Known = nKnown
		r.Failures = fresh
		results[len(results)-1].Failures = fresh
		if len(r.Failures) == 0 {
			continue
		}
		violations++
		replayDir := filepath.Join(verifDir(), "evidence", "replay", prop)
		if noEvidence {
			replayDir = filepath.Join(os.TempDir(), "govc-replay", prop)
		}
		_ = os.MkdirAll(replayDir, 0o755)
		path := filepath.Join(replayDir, "bounded_"+sanitize(r.Name)+".json")
		b, _ := json.MarshalIndent(map[string]any{
			"property": prop, "obligation": "bounded:" + r.Name, "kind": "bounded", "bound": r.Bound,
			"failing_inputs": r.Failures, "cases": r.Cases, "test_file": r.File,
			"note": "each line is an input on which the real code disagrees with the oracle of the bounded check; re-run with: govc check -p " + prop,
		}, "", " ")
		_ = os.WriteFile(path, b, 0o644)
		for i, fl := range r.Failures {
			if i >= 5 {
				fmt.Printf("  … %d more\n", len(r.Failures)-5)
				break
			}
			fmt.Printf("  FAILING-INPUT %s\n", truncate(fl, 300))
		}
		fmt.Printf("FAILED-OBLIGATION bounded:%s verdict=counterexample solver=go-test props=%s pos= text=%q\n", r.Name, prop, truncate(r.Bound, 200))
		fmt.Printf("VIOLATION property=%s replay=%s\n", prop, path)
	}
	return results, violations
}

// knownBounded finds the known-findings entry for a failing input of a bounded
// check: entries are keyed by the obligation "bounded:<name>" and the exact input.
func knownBounded(prop, name, failure string) *knownFinding {
	m := regexp.MustCompile(`^input=("(?:[^"\\]|\\.)*")`).FindStringSubmatch(failure)
	if m == nil {
		return nil
	}
	in, err := strconv.Unquote(m[1])
	if err != nil {
		return nil
	}
	known := loadKnown()
	for i := range known {
		k := &known[i]
		if k.Status == "known" && k.Obligation == "bounded:"+name && k.Witness == in && contains(strings.Fields(k.Property), prop) {
			return k
		}
	}
	return nil
}
