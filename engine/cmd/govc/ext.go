package main

// Assumed contracts on functions outside the module (DESIGN §8.2). Every
// handler that is used records itself in the evidence as an assumption.

import (
	"fmt"
	"go/constant"
	"go/token"
	"go/types"
	"sort"
	"strings"

	"golang.org/x/tools/go/ssa"
)

// ---------------------------------------------------------------------------
// error sentinels of the module

type sentinels struct {
	globals []*ssa.Global
	names   []string
	wraps   map[string]map[string]bool // name -> set of names it wraps (transitive, irreflexive)
	mutated map[string]bool
}

func collectSentinels(prog *ssa.Program, module string) *sentinels {
	s := &sentinels{wraps: map[string]map[string]bool{}, mutated: map[string]bool{}}
	direct := map[string][]string{}
	for _, pkg := range sortedPkgs(prog) {
		if pkg.Pkg == nil || !isModulePkg(pkg.Pkg.Path(), module) {
			continue
		}
		for _, m := range sortedMembers(pkg) {
			g, ok := m.(*ssa.Global)
			if !ok {
				continue
			}
			el := g.Type().Underlying().(*types.Pointer).Elem()
			if !isErrorType(el) {
				continue
			}
			s.globals = append(s.globals, g)
		}
	}
	sort.Slice(s.globals, func(i, j int) bool { return s.globals[i].String() < s.globals[j].String() })
	isSent := map[*ssa.Global]bool{}
	for _, g := range s.globals {
		s.names = append(s.names, g.String())
		isSent[g] = true
	}
	// initialisers: *G = errors.New(..) | fmt.Errorf("%w..", *H, ...)
	for _, pkg := range sortedPkgs(prog) {
		if pkg.Pkg == nil || !isModulePkg(pkg.Pkg.Path(), module) {
			continue
		}
		for _, m := range sortedMembers(pkg) {
			fn, ok := m.(*ssa.Function)
			if !ok {
				continue
			}
			fns := []*ssa.Function{fn}
			fns = append(fns, fn.AnonFuncs...)
			for _, f := range fns {
				for _, b := range f.Blocks {
					for _, in := range b.Instrs {
						st, ok := in.(*ssa.Store)
						if !ok {
							continue
						}
						g, ok := st.Addr.(*ssa.Global)
						if !ok || !isSent[g] {
							continue
						}
						if f.Name() != "init" {
							s.mutated[g.String()] = true
							continue
						}
						call, ok := st.Val.(*ssa.Call)
						if !ok {
							s.mutated[g.String()] = true
							continue
						}
						callee, _ := call.Call.Value.(*ssa.Function)
						if callee == nil {
							s.mutated[g.String()] = true
							continue
						}
						switch callee.String() {
						case "errors.New":
						case "fmt.Errorf":
							// find loads of sentinel globals among the operands (varargs array stores)
							for _, w := range errorfWrapped(call) {
								direct[g.String()] = append(direct[g.String()], w)
							}
						default:
							s.mutated[g.String()] = true
						}
					}
				}
			}
		}
	}
	// transitive closure
	for _, n := range s.names {
		set := map[string]bool{}
		var visit func(a string)
		visit = func(a string) {
			for _, b := range direct[a] {
				if !set[b] {
					set[b] = true
					visit(b)
				}
			}
		}
		visit(n)
		s.wraps[n] = set
	}
	return s
}

// errorfWrapped returns the sentinel globals passed to %w verbs of a
// fmt.Errorf call in a package initialiser.
func errorfWrapped(call *ssa.Call) []string {
	var out []string
	if len(call.Call.Args) < 2 {
		return nil
	}
	sl, ok := call.Call.Args[1].(*ssa.Slice)
	if !ok {
		return nil
	}
	alloc, ok := sl.X.(*ssa.Alloc)
	if !ok {
		return nil
	}
	for _, ref := range *alloc.Referrers() {
		ia, ok := ref.(*ssa.IndexAddr)
		if !ok {
			continue
		}
		for _, r2 := range *ia.Referrers() {
			st, ok := r2.(*ssa.Store)
			if !ok {
				continue
			}
			v := st.Val
			if ci, ok := v.(*ssa.ChangeInterface); ok {
				v = ci.X
			}
			if mi, ok := v.(*ssa.MakeInterface); ok {
				v = mi.X
			}
			if u, ok := v.(*ssa.UnOp); ok && u.Op == token.MUL {
				if g, ok := u.X.(*ssa.Global); ok {
					out = append(out, g.String())
				}
			}
		}
	}
	return out
}

func sentName(g string) string { return "sent_" + sanitize(g) }

func (s *sentinels) declare(x *X) {
	vc := x.vc
	var all []string
	for _, n := range s.names {
		vc.decl(fmt.Sprintf("(declare-const %s Int)", sentName(n)))
		all = append(all, sentName(n))
	}
	vc.decl("(declare-const sent_ctx Int)")
	vc.decl("(declare-const ctxerr Int)")
	all = append(all, "sent_ctx", "ctxerr")
	vc.decl(fmt.Sprintf("(assert (distinct 0 %s))", strings.Join(all, " ")))
	for _, a := range s.names {
		for _, b := range s.names {
			vc.decl(fmt.Sprintf("(assert (= (wraps %s %s) %v))", sentName(a), sentName(b), s.wraps[a][b]))
		}
		vc.decl(fmt.Sprintf("(assert (not (wraps %s sent_ctx)))", sentName(a)))
		vc.decl(fmt.Sprintf("(assert (not (wraps ctxerr %s)))", sentName(a)))
		vc.decl(fmt.Sprintf("(assert (not (wraps sent_ctx %s)))", sentName(a)))
	}
	vc.decl("(assert (wraps ctxerr sent_ctx))")
	// sentinel ids are negative so that they never collide with fresh ids
	for _, n := range all {
		vc.decl(fmt.Sprintf("(assert (< %s 0))", n))
	}
	x.enc.assumption("error sentinels: wrap relation read from the package initialisers (errors.New / fmt.Errorf %w); sentinels are never reassigned outside init (checked syntactically)")
}

// value gives the (constant) value of a sentinel global.
func (s *sentinels) value(x *X, g *ssa.Global) (Term, bool) {
	for _, n := range s.names {
		if n == g.String() && !s.mutated[n] {
			return T(SInt, sentName(n)), true
		}
	}
	return Term{}, false
}

func (x *X) errorsIs(e, target Term) Term {
	return mkAnd(mkNot(mkEq(e, intLit(0))), mkOr(mkEq(e, target), app(SBool, "wraps", e, target)))
}

// newError creates a fresh non-nil error that wraps exactly what the given
// operands wrap (w.r.t. the known sentinels).
func (x *X) newError(wrapped []Term) Term {
	e := x.vc.fresh("err", SInt)
	x.vc.assume(app(SBool, ">", e, intLit(0)))
	targets := []string{"sent_ctx"}
	for _, n := range x.sentinel.names {
		targets = append(targets, sentName(n))
	}
	for _, t := range targets {
		var alts []Term
		for _, w := range wrapped {
			alts = append(alts, x.errorsIs(w, T(SInt, t)))
		}
		x.vc.assume(mkEq(app(SBool, "wraps", e, T(SInt, t)), mkOr(alts...)))
	}
	return e
}

// errFromAny: error value created from a concrete non-error value (custom error types).
func (x *X) errFromAny(e Term, inner Term) {
	for _, n := range x.sentinel.names {
		x.vc.assume(mkNot(app(SBool, "wraps", e, T(SInt, sentName(n)))))
	}
}

// ---------------------------------------------------------------------------

func fullName(fn *ssa.Function) string {
	s := fn.String()
	return s
}

// external models a call to a function outside the module.
func (x *X) external(fr *Frame, st *State, fn *ssa.Function, args []SV, cc *ssa.CallCommon, pos token.Pos) []SV {
	name := fullName(fn)
	if o := fn.Origin(); o != nil {
		name = o.String()
	}
	sig := fn.Signature
	isz := x.enc.isz()
	argT := func(i int) Term {
		var t types.Type
		if i < len(fn.Params) {
			t = fn.Params[i].Type()
		}
		return x.asTerm(args[i], t)
	}
	pureUF := func(note string) []SV {
		var targs []Term
		for i := range args {
			targs = append(targs, argT(i))
		}
		n := sig.Results().Len()
		rets := make([]SV, n)
		for i := 0; i < n; i++ {
			rt := sig.Results().At(i).Type()
			r := x.vc.define("ext", x.ufS(fmt.Sprintf("ext_%s_r%d", sanitize(name), i), x.enc.sortOf(rt), targs...))
			x.assumeWF(st, r, rt)
			rets[i] = r
		}
		x.enc.assumption("external " + name + ": " + note)
		return rets
	}
	if r, ok := x.bigModel(st, name, fn, argT, len(args)); ok {
		return r
	}
	switch name {
	case "fmt.Errorf":
		return []SV{x.errorf(fr, st, args, cc)}
	case "errors.New":
		x.enc.assumption("errors.New returns a fresh non-nil error that wraps nothing")
		return []SV{x.newError(nil)}
	case "errors.Is":
		return []SV{x.errorsIs(argT(0), argT(1))}
	case "strconv.FormatBool":
		return []SV{mkIte(argT(0), x.enc.strLit("true"), x.enc.strLit("false"))}
	case "context.WithValue":
		// the derived context answers Value(key) with val and every other key as its parent does
		x.enc.assumption("context: WithValue(parent, key, val).Value(key) == val; other keys are answered by the parent")
		r := x.vc.define("ctxwith", x.ufS("ctx_with", SAny, argT(0), argT(1), argT(2)))
		x.assumeWF(st, r, types.NewInterfaceType(nil, nil))
		x.vc.assume(mkNot(T(SBool, "((_ is ANil) "+r.S+")")))
		x.vc.assume(mkEq(x.ufS("ctx_value", SAny, r, argT(1)), argT(2)))
		return []SV{r}
	case "fmt.Sprintf", "fmt.Sprint", "fmt.Sprintln":
		r := x.vc.fresh("sprintf", SStr)
		x.vc.assume(x.ile(x.ic(0), app(isz, "strlen", r)))
		return []SV{r}
	case "math.IsNaN":
		return []SV{app(SBool, "fp.isNaN", argT(0))}
	case "math.IsInf":
		f, sgn := argT(0), argT(1)
		z := x.enc.intConst(0, types.Typ[types.Int])
		pos := mkAnd(app(SBool, "fp.isInfinite", f), app(SBool, "fp.isPositive", f))
		neg := mkAnd(app(SBool, "fp.isInfinite", f), app(SBool, "fp.isNegative", f))
		return []SV{mkOr(mkAnd(x.enc.intCmp(token.GEQ, sgn, z, types.Typ[types.Int]), pos), mkAnd(x.enc.intCmp(token.LEQ, sgn, z, types.Typ[types.Int]), neg))}
	case "math.Abs":
		return []SV{app(SF64, "fp.abs", argT(0))}
	case "math.Floor":
		return []SV{app(SF64, "fp.roundToIntegral RTN", argT(0))}
	case "math.Ceil":
		return []SV{app(SF64, "fp.roundToIntegral RTP", argT(0))}
	case "math.Trunc":
		return []SV{app(SF64, "fp.roundToIntegral RTZ", argT(0))}
	case "math.Round":
		x.enc.assumption("math.Round = IEEE roundToIntegral, ties away from zero")
		return []SV{app(SF64, "fp.roundToIntegral RNA", argT(0))}
	case "math.Mod":
		r := pureUF("pure; result finite for finite x and non-zero finite y, NaN otherwise unspecified")
		return r
	case "math.Pow10":
		r := pureUF("pure; +Inf for n > 308, 0 for n < -323, positive finite otherwise, >= 1 for n >= 0")
		rt := r[0].(Term)
		n := argT(0)
		it := types.Typ[types.Int]
		x.vc.assume(mkImplies(x.enc.intCmp(token.GEQ, n, x.enc.intConst(0, it), it), app(SBool, "fp.geq", rt, x.enc.floatConst(1, SF64))))
		x.vc.assume(mkImplies(x.enc.intCmp(token.GTR, n, x.enc.intConst(308, it), it), mkAnd(app(SBool, "fp.isInfinite", rt), app(SBool, "fp.isPositive", rt))))
		x.vc.assume(mkImplies(x.enc.intCmp(token.LSS, n, x.enc.intConst(-323, it), it), app(SBool, "fp.isZero", rt)))
		x.vc.assume(mkImplies(mkAnd(x.enc.intCmp(token.LEQ, n, x.enc.intConst(308, it), it), x.enc.intCmp(token.GEQ, n, x.enc.intConst(-323, it), it)),
			mkAnd(app(SBool, "fp.isPositive", rt), mkNot(app(SBool, "fp.isInfinite", rt)), mkNot(app(SBool, "fp.isNaN", rt)), mkNot(app(SBool, "fp.isZero", rt)))))
		return r
	case "(encoding/json.Number).Int64":
		s := argT(0)
		isInt := x.ufS("jnIsInt", SBool, s)
		v := x.ufS("jnInt", x.enc.intSortW(64), s)
		x.jnAxioms(s)
		e := x.vc.fresh("jnerr", SInt)
		x.vc.assume(mkEq(mkEq(e, intLit(0)), isInt))
		x.externalErr(e)
		val := x.vc.define("jnint", v)
		x.vc.assume(x.enc.rangeFact(val, types.Typ[types.Int64]))
		return []SV{val, e}
	case "(encoding/json.Number).Float64":
		s := argT(0)
		isF := x.ufS("jnIsFloat", SBool, s)
		v := x.ufS("jnFloat", SF64, s)
		x.jnAxioms(s)
		e := x.vc.fresh("jnerr", SInt)
		x.vc.assume(mkEq(mkEq(e, intLit(0)), isF))
		x.externalErr(e)
		return []SV{x.vc.define("jnfloat", v), e}
	case "(encoding/json.Number).String":
		return []SV{argT(0)}
	case "strconv.ParseFloat", "strconv.ParseInt", "strconv.ParseUint", "strconv.Atoi", "strconv.ParseBool":
		rets := pureUF("pure function of its arguments; returned error (if any) wraps no module sentinel")
		if e, ok := rets[len(rets)-1].(Term); ok {
			x.externalErr(e)
		}
		if name == "strconv.ParseInt" || name == "strconv.Atoi" {
			// result fits the requested bit size on success
			if name == "strconv.ParseInt" {
				if bits, ok := constArg(cc, 2); ok && bits > 0 && bits < 64 {
					v := rets[0].(Term)
					lo, hi := intRange(int(bits), true)
					if !x.enc.bv {
						x.vc.assume(mkImplies(mkEq(rets[1].(Term), intLit(0)), mkAnd(app(SBool, "<=", bigLit(lo.String()), v), app(SBool, "<=", v, bigLit(hi.String())))))
					}
				}
			}
		}
		if name == "strconv.ParseFloat" {
			v, e := rets[0].(Term), rets[1].(Term)
			// ParseFloat accepts "NaN"/"Inf"; on success of a finite literal it is finite. No constraint added.
			_, _ = v, e
		}
		return rets
	case "strconv.FormatInt", "strconv.FormatFloat", "strconv.Itoa", "strconv.Quote", "strconv.FormatUint", "strconv.QuoteRune", "strconv.Unquote":
		rets := pureUF("pure function of its arguments")
		return rets
	case "strings.Compare":
		a, b := argT(0), argT(1)
		it := types.Typ[types.Int]
		x.enc.assumption("strings.Compare is the three-way comparison of a strict total order strlt on strings")
		x.strOrderAxioms(a, b)
		return []SV{mkIte(mkEq(a, b), x.enc.intConst(0, it), mkIte(app(SBool, "strlt", a, b), x.enc.intConst(-1, it), x.enc.intConst(1, it)))}
	case "strings.HasPrefix", "strings.HasSuffix", "strings.EqualFold", "strings.Contains", "strings.ToLower", "strings.ToUpper", "strings.TrimSpace", "strings.Index", "strings.IndexByte", "strings.ContainsRune", "strings.IndexRune", "strings.Repeat", "strings.TrimPrefix", "strings.TrimSuffix", "strings.ContainsAny", "strings.LastIndex":
		rets := pureUF("pure function of its arguments")
		if name == "strings.ToLower" {
			// lower-case ASCII literals are fixed points
			for lit, t := range x.enc.strLits {
				if strings.ToLower(lit) == lit {
					x.vc.assume(mkEq(x.ufS("ext_strings_ToLower_r0", SStr, t), t))
				}
			}
			x.enc.assumption("strings.ToLower maps a lower-case ASCII string to itself")
		}
		if name == "strings.HasPrefix" {
			// prefix relation facts: reflexive, length-monotone
			r := rets[0].(Term)
			x.vc.assume(mkImplies(r, x.ile(app(isz, "strlen", argT(1)), app(isz, "strlen", argT(0)))))
			x.vc.assume(mkImplies(mkEq(argT(0), argT(1)), r))
		}
		if name == "strings.EqualFold" {
			r := rets[0].(Term)
			x.vc.assume(mkImplies(r, mkEq(app(isz, "strlen", argT(0)), app(isz, "strlen", argT(1)))))
			x.enc.assumption("strings.EqualFold: equal strings fold-equal; fold-equal ASCII strings have equal length")
			x.vc.assume(mkImplies(mkEq(argT(0), argT(1)), r))
		}
		return rets
	case "strings.CutPrefix":
		// (after, found): found is HasPrefix(s, prefix); then s == prefix + after, else after == s
		s0, pre := argT(0), argT(1)
		found := x.vc.define("ext", x.ufS("ext_strings_HasPrefix_r0", SBool, s0, pre))
		after := x.vc.fresh("cutafter", SStr)
		x.vc.assume(x.ile(x.ic(0), app(isz, "strlen", after)))
		x.vc.assume(mkImplies(found, mkEq(app(SStr, "strcat", pre, after), s0)))
		x.vc.assume(mkImplies(mkNot(found), mkEq(after, s0)))
		x.enc.assumption("strings.CutPrefix(s, p) = (after, found): found == HasPrefix(s, p); found implies s == p + after; otherwise after == s")
		return []SV{after, found}
	case "maps.Copy", "maps.Insert", "maps.DeleteFunc":
		// the destination map is rewritten: its contents become arbitrary
		if mt, ok := sig.Params().At(0).Type().Underlying().(*types.Map); ok {
			m := argT(0)
			ks, vs := x.enc.sortOf(mt.Key()), x.enc.sortOf(mt.Elem())
			has, getk, lenk := x.mapKeys(ks, vs)
			st.mem[has] = x.vc.define("h", mkStore(x.get(st, has), m, x.vc.fresh("mapcopy_has", arraySort(ks, SBool))))
			st.mem[getk] = x.vc.define("h", mkStore(x.get(st, getk), m, x.vc.fresh("mapcopy_get", arraySort(ks, vs))))
			nl := x.vc.fresh("mapcopy_len", isz)
			x.vc.assume(mkAnd(x.ile(x.ic(0), nl), x.ile(nl, x.ic(0x3fffffffffffffff))))
			st.mem[lenk] = x.vc.define("h", mkStore(x.get(st, lenk), m, nl))
			x.enc.assumption(name + " rewrites its destination map (contents afterwards arbitrary)")
			return nil
		}
	case "slices.Collect":
		if it, ok := args[0].(*IterV); ok {
			return []SV{x.collectMap(st, it, fn)}
		}
	case "(*math/big.Rat).Float64":
		// the nearest float64 (possibly an infinity) and whether it is exact; never NaN
		f := x.vc.fresh("ratf64", SF64)
		x.vc.assume(mkNot(app(SBool, "fp.isNaN", f)))
		x.enc.assumption("math/big: (*Rat).Float64 returns the nearest float64, which may be infinite but is never NaN")
		return []SV{f, x.vc.fresh("ratexact", SBool)}
	case "slices.Sorted":
		if it, ok := args[0].(*IterV); ok && it.kind == "mapkeys" {
			return []SV{x.sortedKeys(st, it, fn)}
		}
	case "maps.Values", "maps.Keys":
		kind := "mapvalues"
		if name == "maps.Keys" {
			kind = "mapkeys"
		}
		return []SV{&IterV{kind: kind, m: argT(0)}}
	case "slices.Sort":
		// sorts in place: contents permuted
		s := argT(0)
		el := fn.Params[0].Type().Underlying().(*types.Slice).Elem()
		es := x.enc.sortOf(el)
		k := x.elemsKey(es)
		base, _, _, _ := x.sliceParts(s)
		st.mem[k] = x.vc.define("h", mkStore(x.get(st, k), base, x.vc.fresh("sorted", arraySort(isz, es))))
		x.enc.assumption("slices.Sort permutes the slice in place (contents after the call arbitrary in the model)")
		return nil
	case "encoding/json.Marshal":
		rets := pureUF("pure; marshalling a finite float64 never fails")
		v := argT(0)
		ok := mkAnd(T(SBool, "((_ is AF64) "+v.S+")"), mkNot(app(SBool, "fp.isNaN", app(SF64, "af64", v))), mkNot(app(SBool, "fp.isInfinite", app(SF64, "af64", v))))
		x.vc.assume(mkImplies(ok, mkEq(rets[1].(Term), intLit(0))))
		x.externalErr(rets[1].(Term))
		if sl, isT := rets[0].(Term); isT && sl.Sort == SSlice {
			x.assumeWF(st, sl, sig.Results().At(0).Type())
		}
		return rets
	case "reflect.ValueOf":
		return []SV{x.ufS("reflect_valueof", x.enc.sortOf(sig.Results().At(0).Type()), argT(0))}
	case "(reflect.Value).Pointer":
		r := x.vc.define("addr", x.ufS("reflect_pointer", x.enc.intSortW(64), argT(0)))
		x.vc.assume(x.enc.rangeFact(r, types.Typ[types.Uintptr]))
		if !x.enc.bv {
			x.vc.assume(app(SBool, "<", r, bigLit("9223372036854775808")))
		}
		x.enc.assumption("reflect.Value.Pointer: a pure function of the value (non-moving GC, objects alive); addresses are below 2^63")
		return []SV{r}
	case "regexp.MustCompile", "regexp.Compile", "regexp/syntax.Parse", "regexp.QuoteMeta", "(*regexp.Regexp).MatchString":
		rets := pureUF("pure function of its arguments")
		for i := 0; i < sig.Results().Len(); i++ {
			if isErrorType(sig.Results().At(i).Type()) {
				x.externalErr(rets[i].(Term))
			}
		}
		if name == "regexp.MustCompile" {
			x.enc.assumption("regexp.MustCompile does not panic on patterns that syntax.Parse accepted under the corresponding flags, and returns a non-nil *Regexp")
			if r, ok := rets[0].(Term); ok && r.Sort == SInt {
				x.vc.assume(mkNot(mkEq(r, intLit(0))))
			}
		}
		return rets
	case "unicode/utf8.RuneLen", "unicode/utf8.ValidRune", "unicode/utf16.IsSurrogate", "unicode/utf16.DecodeRune", "unicode/utf8.RuneCountInString", "unicode.IsSpace", "unicode.IsDigit", "unicode.IsLetter", "github.com/smasher164/xid.Start", "github.com/smasher164/xid.Continue", "unicode/utf8.ValidString", "unicode/utf8.RuneError":
		rets := pureUF("pure function of its arguments")
		switch name {
		case "unicode.IsSpace", "unicode.IsDigit", "unicode.IsLetter", "github.com/smasher164/xid.Start", "github.com/smasher164/xid.Continue", "unicode/utf8.ValidRune", "unicode/utf16.IsSurrogate":
			// no character class contains a negative rune
			i32 := types.Typ[types.Int32]
			x.vc.assume(mkImplies(x.enc.intCmp(token.LSS, argT(0), x.enc.intConst(0, i32), i32), mkNot(rets[0].(Term))))
			x.enc.assumption("unicode/xid character classes contain no negative rune")
		}
		// the exact definitions of the code point classes of unicode/utf8 and utf16
		{
			i32 := types.Typ[types.Int32]
			c := func(op token.Token, a Term, n int64) Term { return x.enc.intCmp(op, a, x.enc.intConst(n, i32), i32) }
			switch name {
			case "unicode/utf16.IsSurrogate":
				r := argT(0)
				x.vc.assume(mkEq(rets[0].(Term), mkAnd(c(token.GEQ, r, 0xD800), c(token.LSS, r, 0xE000))))
				x.enc.assumption("utf16.IsSurrogate(r) == (0xD800 <= r < 0xE000)")
			case "unicode/utf8.ValidRune":
				r := argT(0)
				x.vc.assume(mkEq(rets[0].(Term), mkAnd(c(token.GEQ, r, 0), c(token.LEQ, r, 0x10FFFF), mkNot(mkAnd(c(token.GEQ, r, 0xD800), c(token.LSS, r, 0xE000))))))
				x.enc.assumption("utf8.ValidRune(r) == (0 <= r <= 0x10FFFF and r is no surrogate)")
			case "unicode/utf8.RuneLen":
				r := argT(0)
				n := rets[0].(Term)
				it := types.Typ[types.Int]
				valid := mkAnd(c(token.GEQ, r, 0), c(token.LEQ, r, 0x10FFFF), mkNot(mkAnd(c(token.GEQ, r, 0xD800), c(token.LSS, r, 0xE000))))
				x.vc.assume(mkImplies(mkNot(valid), mkEq(n, x.enc.intConst(-1, it))))
				x.vc.assume(mkImplies(valid, mkAnd(x.enc.intCmp(token.GEQ, n, x.enc.intConst(1, it), it), x.enc.intCmp(token.LEQ, n, x.enc.intConst(4, it), it))))
				x.enc.assumption("utf8.RuneLen(r) is 1..4 for a valid rune and -1 otherwise")
			case "unicode/utf16.DecodeRune":
				d := rets[0].(Term)
				x.vc.assume(mkOr(mkEq(d, x.enc.intConst(0xFFFD, i32)), mkAnd(c(token.GEQ, d, 0x10000), c(token.LEQ, d, 0x10FFFF))))
				x.enc.assumption("utf16.DecodeRune returns a code point in 0x10000..0x10FFFF or U+FFFD")
			}
		}
		return rets
	case "unicode/utf8.DecodeRune":
		s := argT(0)
		_, _, ln, _ := x.sliceParts(s)
		r := x.vc.fresh("rune", x.enc.intSortW(32))
		w := x.vc.fresh("width", isz)
		x.vc.assume(x.enc.rangeFact(r, types.Typ[types.Int32]))
		x.vc.assume(mkAnd(x.ile(x.ic(0), w), x.ile(w, x.ic(4)), x.ile(w, ln)))
		x.vc.assume(mkImplies(x.ilt(x.ic(0), ln), x.ile(x.ic(1), w)))
		x.vc.assume(x.enc.intCmp(token.GEQ, r, x.enc.intConst(0, types.Typ[types.Int32]), types.Typ[types.Int32]))
		// a one-byte decode is that ASCII byte, or RuneError for a byte that
		// cannot stand alone
		{
			base, off, _, _ := x.sliceParts(s)
			k := x.elemsKey(x.enc.intSortW(8))
			first := mkSelect(mkSelect(x.get(st, k), base, arraySort(isz, x.enc.intSortW(8))), off, x.enc.intSortW(8))
			i32 := types.Typ[types.Int32]
			b := x.enc.convertInt(first, types.Typ[types.Uint8], i32)
			x.vc.assume(mkImplies(mkEq(w, x.ic(1)), mkOr(
				mkEq(r, x.enc.intConst(0xFFFD, i32)),
				mkAnd(mkEq(r, b), x.enc.intCmp(token.LSS, r, x.enc.intConst(128, i32), i32)))))
			x.vc.assume(mkImplies(mkAnd(mkEq(w, x.ic(1)), x.enc.intCmp(token.GEQ, b, x.enc.intConst(128, i32), i32)), mkEq(r, x.enc.intConst(0xFFFD, i32))))
		}
		// a sequence of more than one byte encodes a rune outside ASCII
		x.vc.assume(mkImplies(x.ilt(x.ic(1), w), x.enc.intCmp(token.GEQ, r, x.enc.intConst(128, types.Typ[types.Int32]), types.Typ[types.Int32])))
		x.enc.assumption("utf8.DecodeRune returns a non-negative rune and a width 1..4 not exceeding the input length (0 only for empty input); width > 1 only for runes >= 0x80")
		return []SV{r, w}
	case "unicode/utf8.EncodeRune":
		n := x.vc.fresh("enclen", isz)
		x.vc.assume(mkAnd(x.ile(x.ic(1), n), x.ile(n, x.ic(4))))
		s := argT(0)
		base, _, _, _ := x.sliceParts(s)
		k := x.elemsKey(x.enc.intSortW(8))
		st.mem[k] = x.vc.define("h", mkStore(x.get(st, k), base, x.vc.fresh("encoded", arraySort(isz, x.enc.intSortW(8)))))
		x.enc.assumption("utf8.EncodeRune writes 1..4 bytes into its buffer and returns their number")
		{
			// as many as utf8.RuneLen says for a valid rune, three (U+FFFD) otherwise
			r := argT(1)
			it := types.Typ[types.Int]
			rl := x.ufS("ext_"+sanitize("unicode/utf8.RuneLen")+"_r0", x.enc.sortOf(it), r)
			x.vc.assume(mkImplies(x.enc.intCmp(token.GEQ, rl, x.enc.intConst(1, it), it), mkEq(n, rl)))
			x.vc.assume(mkImplies(x.enc.intCmp(token.LSS, rl, x.enc.intConst(1, it), it), mkEq(n, x.ic(3))))
			x.enc.assumption("utf8.EncodeRune(p, r) == utf8.RuneLen(r) for a valid rune, 3 otherwise")
		}
		return []SV{n}
	case "unicode/utf8.DecodeRuneInString":
		rets := pureUF("pure; returns (rune, width) with 0 <= width <= 4, width >= 1 for non-empty input, width <= len(s)")
		w := rets[1].(Term)
		s := argT(0)
		x.vc.assume(mkAnd(x.ile(x.ic(0), w), x.ile(w, x.ic(4)), x.ile(w, app(isz, "strlen", s))))
		x.vc.assume(mkImplies(x.ilt(x.ic(0), app(isz, "strlen", s)), x.ile(x.ic(1), w)))
		return rets
	}
	// AppendX(dst []byte, ...) []byte : extends dst in place or in a fresh array
	if strings.Contains(name, ".Append") && sig.Results().Len() == 1 {
		if _, ok := sig.Results().At(0).Type().Underlying().(*types.Slice); ok {
			for i, p := range fn.Params {
				if sl, ok := p.Type().Underlying().(*types.Slice); ok && types.Identical(p.Type(), sig.Results().At(0).Type()) {
					src := argT(i)
					r := x.vc.fresh("appended", SSlice)
					ob, _, ol, _ := x.sliceParts(src)
					nb, _, nl, _ := x.sliceParts(r)
					alloc := x.get(st, x.allocKey())
					na := x.vc.fresh("alloc", SInt)
					x.vc.assume(app(SBool, "<=", alloc, na))
					st.mem[x.allocKey()] = na
					x.assumeWF(st, r, p.Type())
					x.vc.assume(mkOr(mkEq(nb, ob), app(SBool, ">=", nb, alloc)))
					x.vc.assume(x.ile(ol, nl))
					es := x.enc.sortOf(sl.Elem())
					k := x.elemsKey(es)
					ne := x.vc.fresh("appelems", arraySort(isz, es))
					// what was in the destination stays in front of what is appended
					_, oo, _, _ := x.sliceParts(src)
					_, no, _, _ := x.sliceParts(r)
					oe := mkSelect(x.get(st, k), ob, arraySort(isz, es))
					if !x.enc.bv {
						x.vc.assume(T(SBool, fmt.Sprintf("(forall ((i Int)) (! (=> (and (<= 0 i) (< i %s)) (= (select %s (+ %s i)) (select %s (+ %s i)))) :pattern ((select %s (+ %s i)))))", ol.S, ne.S, no.S, oe.S, oo.S, ne.S, no.S)))
						// the first and the last element of the prefix, spelled out (the
						// solvers do not match index arithmetic reliably)
						x.vc.assume(mkImplies(x.ilt(x.ic(0), ol), mkEq(mkSelect(ne, no, es), mkSelect(oe, oo, es))))
						x.vc.assume(mkImplies(x.ilt(x.ic(0), ol), mkEq(mkSelect(ne, x.iadd(no, x.isub(ol, x.ic(1))), es), mkSelect(oe, x.iadd(oo, x.isub(ol, x.ic(1))), es))))
					}
					st.mem[k] = x.vc.define("h", mkStore(x.get(st, k), nb, ne))
					x.enc.assumption("external " + name + ": appends to its destination slice in place or into a fresh array; the destination's elements stay in front")
					return []SV{r}
				}
			}
		}
	}
	// time and other value-only externals: pure uninterpreted functions
	if strings.HasPrefix(name, "time.") || strings.HasPrefix(name, "(time.") || strings.HasPrefix(name, "(*time.") {
		if name == "time.Now" {
			x.enc.assumption("time.Now(): an arbitrary but fixed instant per verified call (DESIGN C17: not decided)")
		}
		rets := pureUF("time package: abstract pure function (theory of time assumed, DESIGN §8.2)")
		if name == "(time.Time).Compare" {
			r := rets[0].(Term)
			it := types.Typ[types.Int]
			x.vc.assume(mkAnd(x.enc.intCmp(token.GEQ, r, x.enc.intConst(-1, it), it), x.enc.intCmp(token.LEQ, r, x.enc.intConst(1, it), it)))
			x.enc.assumption("time.Time.Compare returns -1, 0 or +1")
		}
		for i := 0; i < sig.Results().Len(); i++ {
			if isErrorType(sig.Results().At(i).Type()) {
				x.externalErr(rets[i].(Term))
			}
		}
		return rets
	}
	if strings.HasPrefix(name, "(*strings.Builder).") {
		return x.builderCall(fr, st, fn, name, args)
	}
	if valueOnly(fn) {
		rets := pureUF("treated as a pure function of its arguments (no handler)")
		for i := 0; i < sig.Results().Len(); i++ {
			if isErrorType(sig.Results().At(i).Type()) {
				x.externalErr(rets[i].(Term))
			}
		}
		return rets
	}
	// An unmodelled external function that is handed the address of a package
	// variable may write it: that is shared state outliving the call, which
	// the frame conditions (C05, C09, C19) forbid.
	for i, a := range args {
		if p, ok := a.(*PtrV); ok && p.kind == pkGlobal {
			x.externGlobal++
			x.obligation(st, "frame", fmt.Sprintf("extern-global#%d:%s", x.externGlobal, shortKey(p.key)), tFalse, token.NoPos,
				fmt.Sprintf("address of package variable %s is passed (argument %d) to unmodelled external function %s, which may modify it", p.key, i, name),
				[]string{"C05", "C09", "C19"})
		}
	}
	x.enc.unsupported("external call " + name + " (results arbitrary, effects on module state ignored)")
	return x.havocResults(sig, st)
}

func constArg(cc *ssa.CallCommon, i int) (int64, bool) {
	if cc == nil || i >= len(cc.Args) {
		return 0, false
	}
	c, ok := cc.Args[i].(*ssa.Const)
	if !ok || c.Value == nil {
		return 0, false
	}
	n, ok := constant.Int64Val(constant.ToInt(c.Value))
	return n, ok
}

func valueOnly(fn *ssa.Function) bool {
	for _, p := range fn.Params {
		switch p.Type().Underlying().(type) {
		case *types.Pointer, *types.Map, *types.Chan, *types.Signature:
			return false
		case *types.Slice:
			return false
		}
	}
	return true
}

// externalErr: errors produced outside the module wrap none of its sentinels.
func (x *X) externalErr(e Term) {
	for _, n := range x.sentinel.names {
		x.vc.assume(mkNot(x.errorsIs(e, T(SInt, sentName(n)))))
	}
	x.vc.assume(mkNot(x.errorsIs(e, T(SInt, "sent_ctx"))))
}

func (x *X) jnAxioms(s Term) {
	isInt := x.ufS("jnIsInt", SBool, s)
	isF := x.ufS("jnIsFloat", SBool, s)
	iv := x.ufS("jnInt", x.enc.intSortW(64), s)
	fv := x.ufS("jnFloat", SF64, s)
	x.vc.assume(mkImplies(isInt, isF))
	x.vc.assume(mkImplies(isF, mkAnd(mkNot(app(SBool, "fp.isNaN", fv)), mkNot(app(SBool, "fp.isInfinite", fv)))))
	if x.enc.bv {
		x.vc.assume(mkImplies(isInt, mkEq(fv, x.enc.intToFloat(iv, types.Typ[types.Int64], SF64))))
	}
	// a json.Number holds a syntactically valid JSON number (what encoding/json
	// produces under UseNumber): Float64 fails only with a range error, and
	// then returns an infinity
	x.vc.assume(mkImplies(mkNot(isF), app(SBool, "fp.isInfinite", fv)))
	x.enc.assumption("encoding/json.Number: Int64 succeeds iff the text is an integer in int64 range and then Float64 succeeds with the nearest double; a successful Float64 is finite; every json.Number is a syntactically valid JSON number, so a failing Float64 is a range error returning +Inf or -Inf")
}

func (x *X) strOrderAxioms(a, b Term) {
	x.vc.assume(mkNot(mkAnd(app(SBool, "strlt", a, b), app(SBool, "strlt", b, a))))
	x.vc.assume(mkOr(mkEq(a, b), app(SBool, "strlt", a, b), app(SBool, "strlt", b, a)))
	x.vc.assume(mkNot(app(SBool, "strlt", a, a)))
}

// errorf models fmt.Errorf: a fresh error wrapping what its %w operands wrap.
func (x *X) errorf(fr *Frame, st *State, args []SV, cc *ssa.CallCommon) Term {
	x.enc.assumption("fmt.Errorf returns a fresh non-nil error whose errors.Is chain is the union of its %w operands")
	var format string
	haveFmt := false
	if cc != nil {
		if c, ok := cc.Args[0].(*ssa.Const); ok && c.Value != nil {
			format = constant.StringVal(c.Value)
			haveFmt = true
		}
	}
	if !haveFmt {
		x.enc.unsupported("fmt.Errorf with non-constant format")
		return x.newError(nil)
	}
	// verbs -> operand index
	var wIdx []int
	argi := 0
	for i := 0; i < len(format); i++ {
		if format[i] != '%' {
			continue
		}
		i++
		for i < len(format) && strings.ContainsRune("+-# 0123456789.[]*", rune(format[i])) {
			i++
		}
		if i >= len(format) {
			break
		}
		if format[i] == '%' {
			continue
		}
		if format[i] == 'w' {
			wIdx = append(wIdx, argi)
		}
		argi++
	}
	var wrapped []Term
	if len(wIdx) > 0 {
		sl := x.asTerm(args[1], nil)
		for _, i := range wIdx {
			v := x.elemRead(st, sl, x.ic(int64(i)), types.NewInterfaceType(nil, nil))
			wrapped = append(wrapped, mkIte(T(SBool, "((_ is AErr) "+v.S+")"), app(SInt, "aerr", v), intLit(0)))
		}
	}
	return x.newError(wrapped)
}

// collectMap models slices.Collect(maps.Values(m)) / maps.Keys(m).
func (x *X) collectMap(st *State, it *IterV, fn *ssa.Function) Term {
	isz := x.enc.isz()
	rt := fn.Signature.Results().At(0).Type()
	el := rt.Underlying().(*types.Slice).Elem()
	es := x.enc.sortOf(el)
	// length of the map
	var ks, vs Sort = SStr, SAny
	_, _, lenk := x.mapKeys(ks, vs)
	ln := x.vc.define("maplen", mkIte(mkEq(it.m, intLit(0)), x.ic(0), mkSelect(x.get(st, lenk), it.m, isz)))
	x.vc.assume(x.ile(x.ic(0), ln))
	x.vc.assume(x.ile(ln, x.ic(0x3fffffffffffffff)))
	r := x.newRef(st, "collected")
	k := x.elemsKey(es)
	inner := x.vc.fresh("collected", arraySort(isz, es))
	st.mem[k] = x.vc.define("h", mkStore(x.get(st, k), r, inner))
	cp := x.vc.fresh("collcap", isz)
	x.vc.assume(x.ile(ln, cp))
	x.vc.assume(x.ile(cp, x.ic(0x3fffffffffffffff)))
	// slices.Collect of an empty sequence is nil
	res := mkIte(mkEq(ln, x.ic(0)), x.enc.zero(rt), x.mkSlice(r, x.ic(0), ln, cp))
	x.enc.assumption("slices.Collect(maps.Values/Keys(m)): a slice of len(m) elements, each a value/key of m (order arbitrary); nil when m is empty")
	if !x.enc.bv {
		has, getk, _ := x.mapKeys(ks, vs)
		if it.kind == "mapvalues" {
			// every element is the value of some key
			wit := x.ufS("collect_key", SStr, it.m, T(SInt, "0"))
			_ = wit
			x.vc.decl("(declare-fun collect_keyof (Int Int) Str)")
			x.vc.assume(T(SBool, fmt.Sprintf("(forall ((i Int)) (! (=> (and (<= 0 i) (< i %s)) (and (select (select %s %s) (collect_keyof %s i)) (= (select %s i) (select (select %s %s) (collect_keyof %s i))))) :pattern ((select %s i))))",
				ln.S, x.get(st, has).S, it.m.S, it.m.S, inner.S, x.get(st, getk).S, it.m.S, it.m.S, inner.S)))
		} else {
			x.vc.assume(T(SBool, fmt.Sprintf("(forall ((i Int)) (! (=> (and (<= 0 i) (< i %s)) (select (select %s %s) (select %s i))) :pattern ((select %s i))))",
				ln.S, x.get(st, has).S, it.m.S, inner.S, inner.S)))
		}
	}
	return x.vc.define("collected", res)
}

// sortedKeys models slices.Sorted(maps.Keys(m)): a fresh slice of len(m)
// distinct keys of m; which key stands at position i is a function of the map
// alone (sorted_key), not of the call.
func (x *X) sortedKeys(st *State, it *IterV, fn *ssa.Function) Term {
	isz := x.enc.isz()
	rt := fn.Signature.Results().At(0).Type()
	var ks, vs Sort = SStr, SAny
	has, _, lenk := x.mapKeys(ks, vs)
	ln := x.vc.define("maplen", mkIte(mkEq(it.m, intLit(0)), x.ic(0), mkSelect(x.get(st, lenk), it.m, isz)))
	x.vc.assume(x.ile(x.ic(0), ln))
	x.vc.assume(x.ile(ln, x.ic(0x3fffffffffffffff)))
	r := x.newRef(st, "sortedkeys")
	k := x.elemsKey(SStr)
	inner := x.vc.fresh("sortedkeys", arraySort(isz, SStr))
	st.mem[k] = x.vc.define("h", mkStore(x.get(st, k), r, inner))
	cp := x.vc.fresh("sortedcap", isz)
	x.vc.assume(x.ile(ln, cp))
	x.vc.assume(x.ile(cp, x.ic(0x3fffffffffffffff)))
	res := mkIte(mkEq(ln, x.ic(0)), x.enc.zero(rt), x.mkSlice(r, x.ic(0), ln, cp))
	x.enc.assumption("slices.Sorted(maps.Keys(m)): a slice of the len(m) distinct keys of m in an order that depends on m alone; nil when m is empty")
	if !x.enc.bv {
		_ = x.ufS("ext_sorted_key", SStr, it.m, x.ic(0))
		x.vc.assume(T(SBool, fmt.Sprintf("(forall ((i Int)) (! (=> (and (<= 0 i) (< i %s)) (and (= (select %s i) (ext_sorted_key %s i)) (select (select %s %s) (select %s i)))) :pattern ((select %s i))))",
			ln.S, inner.S, it.m.S, x.get(st, has).S, it.m.S, inner.S, inner.S)))
		x.vc.assume(T(SBool, fmt.Sprintf("(forall ((i Int) (j Int)) (! (=> (and (<= 0 i) (< i j) (< j %s)) (not (= (ext_sorted_key %s i) (ext_sorted_key %s j)))) :pattern ((ext_sorted_key %s i) (ext_sorted_key %s j))))",
			ln.S, it.m.S, it.m.S, it.m.S, it.m.S)))
	}
	return x.vc.define("sortedkeys", res)
}

// builderCall: strings.Builder is an opaque append-only buffer.
func (x *X) builderCall(fr *Frame, st *State, fn *ssa.Function, name string, args []SV) []SV {
	p := x.ptrOf(args[0], fn.Params[0].Type())
	cur := x.load(st, p)
	m := strings.TrimPrefix(name, "(*strings.Builder).")
	bs := cur.Sort
	switch m {
	case "String":
		return []SV{x.ufS("builder_string", SStr, cur)}
	case "Len":
		r := x.vc.define("blen", x.ufS("builder_len", x.enc.isz(), cur))
		x.vc.assume(x.ile(x.ic(0), r))
		return []SV{r}
	case "Reset":
		x.store(st, p, T(bs, "zero_"+string(bs)))
		return nil
	case "Grow":
		return nil
	case "WriteString", "WriteRune", "WriteByte", "Write":
		var a Term
		if len(args) > 1 {
			a = x.asTerm(args[1], fn.Params[1].Type())
		}
		nv := x.vc.define("builder", x.ufS("builder_"+m, bs, cur, a))
		x.store(st, p, nv)
		if len(args) > 1 {
			x.outEvent(st, x.makeInterface(args[1], fn.Params[1].Type()))
		}
		rets := x.havocResults(fn.Signature, st)
		for i := 0; i < fn.Signature.Results().Len(); i++ {
			if isErrorType(fn.Signature.Results().At(i).Type()) {
				x.vc.assume(mkEq(rets[i].(Term), intLit(0)))
			}
		}
		return rets
	}
	x.enc.unsupported("strings.Builder method " + m)
	return x.havocResults(fn.Signature, st)
}

// externalInvoke handles interface method calls on types outside the module.
func (x *X) externalInvoke(fr *Frame, st *State, recv SV, m *types.Func, args []SV, pos token.Pos) []SV {
	full := m.FullName()
	switch full {
	case "(context.Context).Done":
		x.enc.assumption("context: Done() is closed exactly when the ghost flag ctxDone holds; ctxDone is monotone")
		return []SV{x.ufS("ctx_done_chan", SInt, x.asTerm(recv, nil))}
	case "(context.Context).Err":
		// non-nil once done
		done := x.get(st, x.ctxDoneKey())
		x.enc.assumption("context: Err() is non-nil (and wraps only the context's own error) once Done() is closed")
		return []SV{mkIte(done, T(SInt, "ctxerr"), intLit(0))}
	case "(context.Context).Value":
		v := x.vc.define("ctxval", x.ufS("ctx_value", SAny, x.asTerm(recv, nil), x.asTerm(args[0], nil)))
		x.assumeWF(st, v, types.NewInterfaceType(nil, nil))
		return []SV{v}
	case "(error).Error":
		r := x.vc.define("errstr", x.ufS("err_error", SStr, x.asTerm(recv, errorType)))
		x.vc.assume(x.ile(x.ic(0), app(x.enc.isz(), "strlen", r)))
		return []SV{r}
	case "(fmt.Stringer).String":
		r := x.vc.define("str", x.ufS("stringer_string", SStr, x.asTerm(recv, nil)))
		x.vc.assume(x.ile(x.ic(0), app(x.enc.isz(), "strlen", r)))
		return []SV{r}
	}
	return nil
}
