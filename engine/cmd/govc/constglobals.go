package main

// Package-level arrays of numbers that are initialised by a literal of
// constants and never written afterwards (the index tables of stringer-
// generated String methods): their elements are known at the entry of every
// function. Both halves are established mechanically on every run: the values
// are read from the initialiser in the package's syntax, and immutability by
// scanning every instruction of every module function that mentions the
// variable - only element reads and whole-value loads are allowed outside the
// package initialiser.

import (
	"fmt"
	"go/ast"
	"go/constant"
	"go/types"
	"os"

	"golang.org/x/tools/go/ssa"
)

var constGlobalCache = map[*ssa.Global][]int64{}
var constGlobalKnown = map[*ssa.Global]bool{}
var globalWritten map[*ssa.Global]bool

// constScalarValue: the same for a package-level variable of a basic type
// (the goyacc driver's pathDebug and pathErrorVerbose switches).
var constScalarCache = map[*ssa.Global]constant.Value{}
var constScalarKnown = map[*ssa.Global]bool{}

func (x *X) constScalarValue(g *ssa.Global) (constant.Value, types.Type, bool) {
	el := g.Type().Underlying().(*types.Pointer).Elem()
	if v, ok := constScalarKnown[g]; ok {
		return constScalarCache[g], el, v
	}
	constScalarKnown[g] = false
	if g.Pkg == nil || !isModulePkg(g.Pkg.Pkg.Path(), x.module) {
		return nil, nil, false
	}
	b, ok := el.Underlying().(*types.Basic)
	if !ok || b.Info()&(types.IsInteger|types.IsBoolean) == 0 {
		return nil, nil, false
	}
	pkg := pkgIndex[x.db][g.Pkg.Pkg]
	if pkg == nil {
		return nil, nil, false
	}
	obj := g.Object()
	var val constant.Value
	for _, f := range pkg.Syntax {
		for _, d := range f.Decls {
			gd, ok := d.(*ast.GenDecl)
			if !ok {
				continue
			}
			for _, sp := range gd.Specs {
				vs, ok := sp.(*ast.ValueSpec)
				if !ok {
					continue
				}
				for i, nm := range vs.Names {
					if pkg.TypesInfo.Defs[nm] != obj {
						continue
					}
					if len(vs.Values) == 0 {
						if b.Info()&types.IsBoolean != 0 {
							val = constant.MakeBool(false)
						} else {
							val = constant.MakeInt64(0)
						}
						continue
					}
					if len(vs.Names) != len(vs.Values) {
						return nil, nil, false
					}
					tv := pkg.TypesInfo.Types[vs.Values[i]]
					if tv.Value == nil {
						return nil, nil, false
					}
					val = tv.Value
				}
			}
		}
	}
	if val == nil {
		return nil, nil, false
	}
	x.scanGlobalWrites()
	if globalWritten[g] {
		return nil, nil, false
	}
	constScalarCache[g] = val
	constScalarKnown[g] = true
	return val, el, true
}

func (x *X) constArrayValues(g *ssa.Global) ([]int64, bool) {
	if v, ok := constGlobalKnown[g]; ok {
		return constGlobalCache[g], v
	}
	constGlobalKnown[g] = false
	if g.Pkg == nil || !isModulePkg(g.Pkg.Pkg.Path(), x.module) {
		return nil, false
	}
	arr, ok := g.Type().Underlying().(*types.Pointer).Elem().Underlying().(*types.Array)
	if !ok {
		return nil, false
	}
	if b, ok := arr.Elem().Underlying().(*types.Basic); !ok || b.Info()&types.IsInteger == 0 {
		return nil, false
	}
	pkg := pkgIndex[x.db][g.Pkg.Pkg]
	if pkg == nil {
		return nil, false
	}
	obj := g.Object()
	var vals []int64
	found := false
	for _, f := range pkg.Syntax {
		for _, d := range f.Decls {
			gd, ok := d.(*ast.GenDecl)
			if !ok {
				continue
			}
			for _, sp := range gd.Specs {
				vs, ok := sp.(*ast.ValueSpec)
				if !ok {
					continue
				}
				for i, nm := range vs.Names {
					if pkg.TypesInfo.Defs[nm] != obj || i >= len(vs.Values) || len(vs.Names) != len(vs.Values) {
						continue
					}
					cl, ok := vs.Values[i].(*ast.CompositeLit)
					if !ok || int64(len(cl.Elts)) != arr.Len() {
						return nil, false
					}
					for _, e := range cl.Elts {
						if _, isKV := e.(*ast.KeyValueExpr); isKV {
							return nil, false
						}
						tv := pkg.TypesInfo.Types[e]
						if tv.Value == nil {
							return nil, false
						}
						n, exact := constant.Int64Val(constant.ToInt(tv.Value))
						if !exact {
							return nil, false
						}
						vals = append(vals, n)
					}
					found = true
				}
			}
		}
	}
	if !found {
		if os.Getenv("GOVC_DEBUG") != "" {
			fmt.Fprintln(os.Stderr, "constArrayValues: no initialiser found for", g)
		}
		return nil, false
	}
	x.scanGlobalWrites()
	if globalWritten[g] {
		if os.Getenv("GOVC_DEBUG") != "" {
			fmt.Fprintln(os.Stderr, "constArrayValues: written", g)
		}
		return nil, false
	}
	constGlobalCache[g] = vals
	constGlobalKnown[g] = true
	return vals, true
}

// scanGlobalWrites: which package-level variables are used in any way other
// than being read (whole or by element) outside the package initialiser.
func (x *X) scanGlobalWrites() {
	if globalWritten != nil {
		return
	}
	{
		globalWritten = map[*ssa.Global]bool{}
		fns := append([]*ssa.Function{}, allModuleFunctions(x.prog, x.db)...)
		for _, fn := range fns {
			isInit := fn.Name() == "init" && fn.Parent() == nil && fn.Signature.Recv() == nil
			for _, b := range fn.Blocks {
				for _, in := range b.Instrs {
					for _, op := range in.Operands(nil) {
						gg, ok := (*op).(*ssa.Global)
						if !ok {
							continue
						}
						switch in := in.(type) {
						case *ssa.UnOp: // load of the whole value
						case *ssa.IndexAddr:
							for _, r := range *in.Referrers() {
								if st, isSt := r.(*ssa.Store); isSt && isInit && st.Addr == in {
									continue // the initialiser itself (the values are read from the syntax)
								}
								if u, ok := r.(*ssa.UnOp); !ok || u.X != in {
									if _, dbg := r.(*ssa.DebugRef); !dbg {
										if os.Getenv("GOVC_DEBUG") != "" {
											fmt.Fprintf(os.Stderr, "global %s element address used by %T %s in %s\n", gg, r, r, fn)
										}
										globalWritten[gg] = true
									}
								}
							}
						case *ssa.DebugRef:
						case *ssa.Store:
							if !(isInit && in.Addr == gg) {
								if os.Getenv("GOVC_DEBUG") != "" {
									fmt.Fprintf(os.Stderr, "global %s stored by %s in %s\n", gg, in, fn)
								}
								globalWritten[gg] = true
							}
						default:
							if os.Getenv("GOVC_DEBUG") != "" {
								fmt.Fprintf(os.Stderr, "global %s used by %T %s in %s\n", gg, in, in, fn)
							}
							globalWritten[gg] = true
						}
					}
				}
			}
		}
	}
}
