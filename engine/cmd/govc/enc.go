package main

// Encoding of Go types and primitive operations into SMT sorts and terms.

import (
	"fmt"
	"go/constant"
	"go/token"
	"go/types"
	"math"
	"math/big"
	"strconv"
	"strings"
)

type Enc struct {
	vc       *VC
	bv       bool // machine integers as bit-vectors (else mathematical Int + wrap)
	typeIDs  map[string]int
	typeByID []types.Type
	structs  map[string]Sort
	declared map[string]bool
	strLits  map[string]Term
	unsup    []string // features abstracted (reported in evidence)
	assumps  map[string]bool
	module   string
}

func newEnc(vc *VC, bv bool, module string) *Enc {
	e := &Enc{vc: vc, bv: bv, typeIDs: map[string]int{}, structs: map[string]Sort{},
		declared: map[string]bool{}, strLits: map[string]Term{}, assumps: map[string]bool{}, module: module}
	e.preamble()
	return e
}

func (e *Enc) assumption(s string) { e.assumps[s] = true }
func (e *Enc) unsupported(s string) {
	for _, u := range e.unsup {
		if u == s {
			return
		}
	}
	e.unsup = append(e.unsup, s)
}

func (e *Enc) isz() Sort { // sort of int/len values
	if e.bv {
		return "(_ BitVec 64)"
	}
	return SInt
}

func (e *Enc) preamble() {
	vc := e.vc
	isz := string(e.isz())
	vc.decl("(define-sort F64 () (_ FloatingPoint 11 53))")
	vc.decl("(define-sort F32 () (_ FloatingPoint 8 24))")
	vc.decl("(declare-sort Str 0)")
	vc.decl(fmt.Sprintf("(declare-datatypes ((Slice 0)) (((mkSlice (sbase Int) (soff %s) (slen %s) (scap %s)))))", isz, isz, isz))
	vc.decl(fmt.Sprintf("(declare-datatypes ((Any 0)) (((ANil) (ABool (abool Bool)) (AI64 (ai64 %s)) (AF64 (af64 F64)) (AStr (astr Str)) (AJNum (ajn Str)) (ASlice (aslice Slice)) (AMap (amap Int)) (APtr (aptrT Int) (aptr Int)) (AErr (aerr Int)) (AOther (aoT Int) (aoV Int)))))", isz))
	vc.decl(fmt.Sprintf("(declare-fun strlen (Str) %s)", isz))
	vc.decl("(declare-fun strid (Str) Int)")
	vc.decl("(declare-fun strcat (Str Str) Str)")
	vc.decl(fmt.Sprintf("(declare-fun strat (Str %s) %s)", isz, e.intSortW(8)))
	vc.decl(fmt.Sprintf("(declare-fun substr (Str %s %s) Str)", isz, isz))
	vc.decl("(declare-fun strlt (Str Str) Bool)")
	vc.decl("(declare-fun wraps (Int Int) Bool)")
	if !e.bv {
		for _, w := range []int{8, 16, 32, 64} {
			half := new(big.Int).Lsh(big.NewInt(1), uint(w-1))
			full := new(big.Int).Lsh(big.NewInt(1), uint(w))
			hi := new(big.Int).Sub(half, big.NewInt(1))
			umax := new(big.Int).Sub(full, big.NewInt(1))
			vc.decl(fmt.Sprintf("(define-fun wrapS%d ((x Int)) Int (ite (and (<= (- %s) x) (<= x %s)) x (- (mod (+ x %s) %s) %s)))", w, half, hi, half, full, half))
			vc.decl(fmt.Sprintf("(define-fun wrapU%d ((x Int)) Int (ite (and (<= 0 x) (<= x %s)) x (mod x %s)))", w, umax, full))
		}
		vc.decl("(define-fun tdiv ((a Int) (b Int)) Int (ite (>= a 0) (ite (> b 0) (div a b) (- (div a (- b)))) (ite (> b 0) (- (div (- a) b)) (div (- a) (- b)))))")
		vc.decl("(define-fun tmod ((a Int) (b Int)) Int (- a (* b (tdiv a b))))")
	}
}

func (e *Enc) intSortW(w int) Sort {
	if e.bv {
		return Sort(fmt.Sprintf("(_ BitVec %d)", w))
	}
	return SInt
}

func intInfo(t types.Type) (width int, signed bool, ok bool) {
	b, isb := t.Underlying().(*types.Basic)
	if !isb {
		return 0, false, false
	}
	switch b.Kind() {
	case types.Int, types.Int64, types.UntypedInt, types.UntypedRune:
		return 64, true, true
	case types.Int32:
		return 32, true, true
	case types.Int16:
		return 16, true, true
	case types.Int8:
		return 8, true, true
	case types.Uint, types.Uint64, types.Uintptr:
		return 64, false, true
	case types.Uint32:
		return 32, false, true
	case types.Uint16:
		return 16, false, true
	case types.Uint8:
		return 8, false, true
	}
	return 0, false, false
}

func isFloat(t types.Type) bool {
	b, ok := t.Underlying().(*types.Basic)
	return ok && (b.Kind() == types.Float64 || b.Kind() == types.Float32 || b.Kind() == types.UntypedFloat)
}

func isString(t types.Type) bool {
	b, ok := t.Underlying().(*types.Basic)
	return ok && (b.Kind() == types.String || b.Kind() == types.UntypedString)
}

func isBool(t types.Type) bool {
	b, ok := t.Underlying().(*types.Basic)
	return ok && (b.Kind() == types.Bool || b.Kind() == types.UntypedBool)
}

var errorType = types.Universe.Lookup("error").Type()

func isErrorType(t types.Type) bool {
	return types.Identical(t, errorType)
}

func isInterface(t types.Type) bool {
	_, ok := t.Underlying().(*types.Interface)
	return ok
}

func (e *Enc) tid(t types.Type) int {
	k := t.String()
	if id, ok := e.typeIDs[k]; ok {
		return id
	}
	id := len(e.typeIDs) + 1
	e.typeIDs[k] = id
	e.typeByID = append(e.typeByID, t)
	return id
}

func (e *Enc) inModule(n *types.Named) bool {
	return n.Obj().Pkg() != nil && strings.HasPrefix(n.Obj().Pkg().Path(), e.module)
}

// sortOf maps a Go type to an SMT sort.
func (e *Enc) sortOf(t types.Type) Sort {
	if isErrorType(t) {
		return SInt
	}
	switch u := t.Underlying().(type) {
	case *types.Basic:
		switch {
		case u.Kind() == types.UnsafePointer:
			return SInt
		case u.Info()&types.IsBoolean != 0:
			return SBool
		case u.Info()&types.IsInteger != 0:
			w, _, _ := intInfo(t)
			return e.intSortW(w)
		case u.Kind() == types.Float32:
			return SF32
		case u.Info()&types.IsFloat != 0:
			return SF64
		case u.Info()&types.IsString != 0:
			return SStr
		case u.Kind() == types.UntypedNil:
			return SAny
		}
	case *types.Pointer, *types.Map, *types.Signature, *types.Chan:
		return SInt
	case *types.Interface:
		return SAny
	case *types.Slice:
		return SSlice
	case *types.Struct:
		return e.structSort(t, u)
	case *types.Array:
		return arraySort(e.isz(), e.sortOf(u.Elem()))
	case *types.Tuple:
		return "Tuple"
	}
	e.unsupported("type " + t.String())
	return SInt
}

func (e *Enc) structSort(t types.Type, u *types.Struct) Sort {
	k := t.String()
	if s, ok := e.structs[k]; ok {
		return s
	}
	name := "St_" + sanitize(k)
	if len(name) > 60 {
		name = fmt.Sprintf("%s_%d", name[:50], len(e.structs))
	}
	s := Sort(name)
	e.structs[k] = s
	if n, ok := t.(*types.Named); ok && !e.inModule(n) {
		// external struct types are opaque
		e.vc.decl(fmt.Sprintf("(declare-sort %s 0)", name))
		e.vc.decl(fmt.Sprintf("(declare-const zero_%s %s)", name, name))
		return s
	}
	var fs []string
	for i := 0; i < u.NumFields(); i++ {
		fs = append(fs, fmt.Sprintf("(%s_f%d %s)", name, i, e.sortOf(u.Field(i).Type())))
	}
	if len(fs) == 0 {
		e.vc.decl(fmt.Sprintf("(declare-datatypes ((%s 0)) (((mk_%s))))", name, name))
	} else {
		e.vc.decl(fmt.Sprintf("(declare-datatypes ((%s 0)) (((mk_%s %s))))", name, name, strings.Join(fs, " ")))
	}
	return s
}

func (e *Enc) isOpaqueStruct(t types.Type) bool {
	n, ok := t.(*types.Named)
	if !ok {
		return false
	}
	_, isS := n.Underlying().(*types.Struct)
	return isS && !e.inModule(n)
}

func (e *Enc) structField(t types.Type, v Term, i int) Term {
	u := t.Underlying().(*types.Struct)
	s := e.structSort(t, u)
	return app(e.sortOf(u.Field(i).Type()), fmt.Sprintf("%s_f%d", s, i), v)
}

func (e *Enc) structWith(t types.Type, v Term, i int, nv Term) Term {
	u := t.Underlying().(*types.Struct)
	s := e.structSort(t, u)
	args := make([]Term, u.NumFields())
	for j := range args {
		if j == i {
			args[j] = nv
		} else {
			args[j] = e.structField(t, v, j)
		}
	}
	return app(s, "mk_"+string(s), args...)
}

func (e *Enc) zero(t types.Type) Term {
	s := e.sortOf(t)
	if isErrorType(t) {
		return intLit(0)
	}
	switch u := t.Underlying().(type) {
	case *types.Basic:
		switch s {
		case SBool:
			return tFalse
		case SF64:
			return T(SF64, "(_ +zero 11 53)")
		case SF32:
			return T(SF32, "(_ +zero 8 24)")
		case SStr:
			return e.strLit("")
		}
		if w, _, ok := intInfo(t); ok {
			return e.intConstW(big.NewInt(0), w)
		}
		return intLit(0)
	case *types.Pointer, *types.Map, *types.Signature, *types.Chan:
		return intLit(0)
	case *types.Interface:
		return T(SAny, "ANil")
	case *types.Slice:
		z := e.intConstW(big.NewInt(0), 64)
		return app(SSlice, "mkSlice", intLit(0), z, z, z)
	case *types.Struct:
		if e.isOpaqueStruct(t) {
			return T(s, "zero_"+string(s))
		}
		if u.NumFields() == 0 {
			return T(s, "mk_"+string(s))
		}
		args := make([]Term, u.NumFields())
		for i := range args {
			args[i] = e.zero(u.Field(i).Type())
		}
		return app(s, "mk_"+string(s), args...)
	case *types.Array:
		return app(s, "(as const "+string(s)+")", e.zero(u.Elem()))
	}
	return intLit(0)
}

// ---------------------------------------------------------------------------
// strings

func (e *Enc) strLit(s string) Term {
	if t, ok := e.strLits[s]; ok {
		return t
	}
	id := len(e.strLits)
	name := fmt.Sprintf("lit!%d", id)
	e.vc.decl(fmt.Sprintf("(declare-const %s Str) ; %q", name, truncate(s, 60)))
	t := T(SStr, name)
	e.strLits[s] = t
	// identity and length are facts about a constant: declare as decl-level asserts
	e.vc.decl(fmt.Sprintf("(assert (= (strid %s) %d))", name, id))
	e.vc.decl(fmt.Sprintf("(assert (= (strlen %s) %s))", name, e.intConstW(big.NewInt(int64(len(s))), 64).S))
	if e.declared["uf:ext_strings_ToLower_r0"] && strings.ToLower(s) == s {
		e.vc.decl(fmt.Sprintf("(assert (= (ext_strings_ToLower_r0 %s) %s))", name, name))
	}
	for _, uf := range []string{"ext_strconv_ParseInt_r1", "ext_strconv_ParseInt_r0", "ext_strconv_ParseFloat_r1", "ext_strconv_ParseFloat_r0"} {
		if e.declared["uf:"+uf] {
			e.literalFacts(uf, t, s)
		}
	}
	if len(s) <= 12 {
		for i := 0; i < len(s); i++ {
			e.vc.decl(fmt.Sprintf("(assert (= (strat %s %s) %s))", name, e.intConstW(big.NewInt(int64(i)), 64).S, e.intConstW(big.NewInt(int64(s[i])), 8).S))
		}
	}
	return t
}

// literalFacts states what a conversion function of package strconv answers on
// a string constant of the program: the answer is computed here, with the real
// function (the constant is part of the verified text, its value is known).
func (e *Enc) literalFacts(uf string, lit Term, s string) {
	zero, w64 := e.intConstW(big.NewInt(0), 64), e.intConstW(big.NewInt(64), 64)
	switch uf {
	case "ext_strconv_ParseInt_r1", "ext_strconv_ParseInt_r0":
		v, err := strconv.ParseInt(s, 0, 64)
		if uf == "ext_strconv_ParseInt_r1" {
			if err == nil {
				e.vc.decl(fmt.Sprintf("(assert (= (%s %s %s %s) 0))", uf, lit.S, zero.S, w64.S))
			} else {
				e.vc.decl(fmt.Sprintf("(assert (not (= (%s %s %s %s) 0)))", uf, lit.S, zero.S, w64.S))
			}
		} else if err == nil {
			e.vc.decl(fmt.Sprintf("(assert (= (%s %s %s %s) %s))", uf, lit.S, zero.S, w64.S, e.intConstW(big.NewInt(v), 64).S))
		}
	case "ext_strconv_ParseFloat_r0":
		if v, err := strconv.ParseFloat(s, 64); err == nil && !math.IsNaN(v) && !math.IsInf(v, 0) {
			e.vc.decl(fmt.Sprintf("(assert (= (%s %s %s) %s))", uf, lit.S, w64.S, e.floatConst(v, SF64).S))
		}
	case "ext_strconv_ParseFloat_r1":
		_, err := strconv.ParseFloat(s, 64)
		if err == nil {
			e.vc.decl(fmt.Sprintf("(assert (= (%s %s %s) 0))", uf, lit.S, w64.S))
		} else {
			e.vc.decl(fmt.Sprintf("(assert (not (= (%s %s %s) 0)))", uf, lit.S, w64.S))
		}
	}
}

func truncate(s string, n int) string {
	if len(s) > n {
		return s[:n] + "..."
	}
	return s
}

// ---------------------------------------------------------------------------
// integers

func (e *Enc) intConstW(v *big.Int, w int) Term {
	if e.bv {
		m := new(big.Int).Lsh(big.NewInt(1), uint(w))
		x := new(big.Int).Mod(v, m)
		return T(e.intSortW(w), fmt.Sprintf("(_ bv%s %d)", x.String(), w))
	}
	return bigLit(v.String())
}

func (e *Enc) intConst(v int64, t types.Type) Term {
	w, _, ok := intInfo(t)
	if !ok {
		w = 64
	}
	return e.intConstW(big.NewInt(v), w)
}

func (e *Enc) constant(c constant.Value, t types.Type) Term {
	if c == nil {
		return e.zero(t)
	}
	switch {
	case isBool(t):
		return mkBool(constant.BoolVal(c))
	case isString(t):
		return e.strLit(constant.StringVal(c))
	case isFloat(t):
		f, _ := constant.Float64Val(constant.ToFloat(c))
		return e.floatConst(f, e.sortOf(t))
	}
	if w, _, ok := intInfo(t); ok {
		ci := constant.ToInt(c)
		bi, ok2 := new(big.Int).SetString(ci.ExactString(), 10)
		if !ok2 {
			bi = big.NewInt(0)
		}
		return e.intConstW(bi, w)
	}
	e.unsupported("constant of type " + t.String())
	return e.zero(t)
}

func (e *Enc) floatConst(f float64, s Sort) Term {
	if s == SF32 {
		bits := math.Float32bits(float32(f))
		return T(SF32, fmt.Sprintf("(fp #b%01b #b%08b #b%023b)", bits>>31, (bits>>23)&0xff, bits&0x7fffff))
	}
	bits := math.Float64bits(f)
	return T(SF64, fmt.Sprintf("(fp #b%01b #b%011b #b%052b)", bits>>63, (bits>>52)&0x7ff, bits&((1<<52)-1)))
}

func (e *Enc) rangeFact(x Term, t types.Type) Term {
	if e.bv {
		return tTrue
	}
	w, signed, ok := intInfo(t)
	if !ok {
		return tTrue
	}
	lo, hi := intRange(w, signed)
	return mkAnd(app(SBool, "<=", bigLit(lo.String()), x), app(SBool, "<=", x, bigLit(hi.String())))
}

func intRange(w int, signed bool) (lo, hi *big.Int) {
	if signed {
		lo = new(big.Int).Neg(new(big.Int).Lsh(big.NewInt(1), uint(w-1)))
		hi = new(big.Int).Sub(new(big.Int).Lsh(big.NewInt(1), uint(w-1)), big.NewInt(1))
	} else {
		lo = big.NewInt(0)
		hi = new(big.Int).Sub(new(big.Int).Lsh(big.NewInt(1), uint(w)), big.NewInt(1))
	}
	return
}

func (e *Enc) wrap(x Term, t types.Type) Term {
	if e.bv {
		return x
	}
	w, signed, ok := intInfo(t)
	if !ok {
		return x
	}
	if signed {
		return app(SInt, fmt.Sprintf("wrapS%d", w), x)
	}
	return app(SInt, fmt.Sprintf("wrapU%d", w), x)
}

// exact arithmetic result (no wrap) in Int mode, for overflow obligations.
func (e *Enc) intArith(op token.Token, a, b Term, t types.Type) (res Term, ok bool) {
	w, signed, _ := intInfo(t)
	s := e.intSortW(w)
	if e.bv {
		switch op {
		case token.ADD:
			return app(s, "bvadd", a, b), true
		case token.SUB:
			return app(s, "bvsub", a, b), true
		case token.MUL:
			return app(s, "bvmul", a, b), true
		case token.QUO:
			if signed {
				return app(s, "bvsdiv", a, b), true
			}
			return app(s, "bvudiv", a, b), true
		case token.REM:
			if signed {
				return app(s, "bvsrem", a, b), true
			}
			return app(s, "bvurem", a, b), true
		case token.AND:
			return app(s, "bvand", a, b), true
		case token.OR:
			return app(s, "bvor", a, b), true
		case token.XOR:
			return app(s, "bvxor", a, b), true
		case token.AND_NOT:
			return app(s, "bvand", a, app(s, "bvnot", b)), true
		case token.SHL:
			return app(s, "bvshl", a, b), true
		case token.SHR:
			if signed {
				return app(s, "bvashr", a, b), true
			}
			return app(s, "bvlshr", a, b), true
		}
		return a, false
	}
	switch op {
	case token.ADD:
		return e.wrap(app(SInt, "+", a, b), t), true
	case token.SUB:
		return e.wrap(app(SInt, "-", a, b), t), true
	case token.MUL:
		return e.wrap(app(SInt, "*", a, b), t), true
	case token.QUO:
		return e.wrap(app(SInt, "tdiv", a, b), t), true
	case token.REM:
		return app(SInt, "tmod", a, b), true
	}
	return a, false
}

func (e *Enc) intCmp(op token.Token, a, b Term, t types.Type) Term {
	_, signed, _ := intInfo(t)
	if e.bv {
		var o string
		switch op {
		case token.LSS:
			o = "bvslt"
		case token.LEQ:
			o = "bvsle"
		case token.GTR:
			o = "bvsgt"
		case token.GEQ:
			o = "bvsge"
		}
		if !signed {
			o = strings.Replace(o, "bvs", "bvu", 1)
		}
		return app(SBool, o, a, b)
	}
	var o string
	switch op {
	case token.LSS:
		o = "<"
	case token.LEQ:
		o = "<="
	case token.GTR:
		o = ">"
	case token.GEQ:
		o = ">="
	}
	return app(SBool, o, a, b)
}

// convertInt converts integer x of type from to integer type to.
func (e *Enc) convertInt(x Term, from, to types.Type) Term {
	wf, sf, _ := intInfo(from)
	wt, st, _ := intInfo(to)
	if e.bv {
		switch {
		case wt == wf:
			return T(e.intSortW(wt), x.S)
		case wt < wf:
			return app(e.intSortW(wt), fmt.Sprintf("(_ extract %d 0)", wt-1), x)
		case sf:
			return app(e.intSortW(wt), fmt.Sprintf("(_ sign_extend %d)", wt-wf), x)
		default:
			return app(e.intSortW(wt), fmt.Sprintf("(_ zero_extend %d)", wt-wf), x)
		}
	}
	// Int mode: value preserved when it fits, else wrap
	if wt > wf && (st == sf || !sf) {
		return x
	}
	if wt == wf && st == sf {
		return x
	}
	return e.wrap(x, to)
}

// toMathInt gives a mathematical Int for an integer term (identity in Int mode).
func (e *Enc) toMathInt(x Term, t types.Type) Term {
	if !e.bv {
		return x
	}
	_, signed, _ := intInfo(t)
	if signed {
		// two's complement interpretation
		w, _, _ := intInfo(t)
		half := new(big.Int).Lsh(big.NewInt(1), uint(w-1))
		full := new(big.Int).Lsh(big.NewInt(1), uint(w))
		u := app(SInt, "bv2nat", x)
		return mkIte(app(SBool, "<", u, bigLit(half.String())), u, app(SInt, "-", u, bigLit(full.String())))
	}
	return app(SInt, "bv2nat", x)
}

// ---------------------------------------------------------------------------
// floats

func fpSortArgs(s Sort) string {
	if s == SF32 {
		return "8 24"
	}
	return "11 53"
}

func (e *Enc) floatArith(op token.Token, a, b Term) (Term, bool) {
	switch op {
	case token.ADD:
		return app(a.Sort, "fp.add RNE", a, b), true
	case token.SUB:
		return app(a.Sort, "fp.sub RNE", a, b), true
	case token.MUL:
		return app(a.Sort, "fp.mul RNE", a, b), true
	case token.QUO:
		return app(a.Sort, "fp.div RNE", a, b), true
	}
	return a, false
}

func (e *Enc) floatCmp(op token.Token, a, b Term) Term {
	switch op {
	case token.EQL:
		return app(SBool, "fp.eq", a, b)
	case token.NEQ:
		return mkNot(app(SBool, "fp.eq", a, b))
	case token.LSS:
		return app(SBool, "fp.lt", a, b)
	case token.LEQ:
		return app(SBool, "fp.leq", a, b)
	case token.GTR:
		return app(SBool, "fp.gt", a, b)
	case token.GEQ:
		return app(SBool, "fp.geq", a, b)
	}
	return tFalse
}

func (e *Enc) intToFloat(x Term, from types.Type, to Sort) Term {
	_, signed, _ := intInfo(from)
	if e.bv {
		if signed {
			return app(to, fmt.Sprintf("(_ to_fp %s) RNE", fpSortArgs(to)), x)
		}
		return app(to, fmt.Sprintf("(_ to_fp_unsigned %s) RNE", fpSortArgs(to)), x)
	}
	// Int mode: the conversion is an uninterpreted (but functional) symbol;
	// functions whose contract depends on its exact value are marked "mode bv".
	fn := "i2f_" + sanitize(string(to))
	if !e.declared[fn] {
		e.declared[fn] = true
		e.vc.decl(fmt.Sprintf("(declare-fun %s (Int) %s)", fn, to))
		e.vc.decl(fmt.Sprintf("(assert (forall ((x Int)) (! (and (not (fp.isNaN (%s x))) (not (fp.isInfinite (%s x)))) :pattern ((%s x)))))", fn, fn, fn))
	}
	e.assumption("int→float64 conversion in Int mode is an uninterpreted function returning a finite double (exact value only in 'mode bv' functions)")
	return app(to, fn, x)
}

// floatToInt follows amd64 CVTTSD2SI for int64 targets: out of range or NaN
// gives MinInt64 (stated platform assumption).
func (e *Enc) floatToInt(x Term, to types.Type) Term {
	w, signed, _ := intInfo(to)
	if e.bv && signed && w == 64 {
		lo := e.floatConst(-9223372036854775808.0, x.Sort)
		hi := e.floatConst(9223372036854775808.0, x.Sort)
		in := mkAnd(app(SBool, "fp.geq", x, lo), app(SBool, "fp.lt", x, hi))
		e.assumption("float64→int64 conversion modelled as amd64 CVTTSD2SI (out of range or NaN ⇒ MinInt64)")
		return mkIte(in, app(e.intSortW(64), "(_ fp.to_sbv 64) RTZ", x), e.intConstW(new(big.Int).Lsh(big.NewInt(-1), 63), 64))
	}
	e.unsupported("float→int conversion outside bv/int64 mode (result left arbitrary)")
	return e.vc.fresh("f2i", e.intSortW(w))
}
