package main

import (
	"fmt"
	"go/constant"
	"go/token"
	"go/types"

	"golang.org/x/tools/go/ssa"
)

func (x *X) val(fr *Frame, v ssa.Value) SV {
	switch c := v.(type) {
	case *ssa.Const:
		return x.constSV(c)
	case *ssa.Function:
		return &ClosV{fn: c}
	case *ssa.Global:
		return x.globalPtr(c)
	case *ssa.Builtin:
		return c
	}
	sv, ok := fr.vals[v]
	if !ok {
		panic(fmt.Sprintf("no value for %s (%T) in %s", v.Name(), v, fr.fn))
	}
	return sv
}

func (x *X) globalPtr(g *ssa.Global) *PtrV {
	el := g.Type().Underlying().(*types.Pointer).Elem()
	key := "G:" + g.String()
	if _, ok := x.keys[key]; !ok {
		s := x.enc.sortOf(el)
		name := "g0_" + sanitize(g.String())
		declared := false
		x.keys[key] = keyInfo{sort: s, init: func() Term {
			if t, ok := x.sentinel.value(x, g); ok {
				return t
			}
			if !declared {
				declared = true
				x.vc.decl(fmt.Sprintf("(declare-const %s %s)", name, s))
				if cv, ct, ok := x.constScalarValue(g); ok {
					x.vc.decl(fmt.Sprintf("(assert (= %s %s))", name, x.enc.constant(cv, ct).S))
				}
				if vals, ok := x.constArrayValues(g); ok {
					arr := el.Underlying().(*types.Array)
					for i, v := range vals {
						x.vc.decl(fmt.Sprintf("(assert (= (select %s %s) %s))", name, x.ic(int64(i)).S, x.enc.intConst(v, arr.Elem()).S))
					}
				}
				if _, isPtr := el.Underlying().(*types.Pointer); isPtr && g.Pkg != nil && !isModulePkg(g.Pkg.Pkg.Path(), x.module) {
					x.vc.decl(fmt.Sprintf("(assert (> %s 0))", name))
					x.enc.assumption("package-level pointer variables of other modules (" + g.String() + ") are non-nil")
				}
			}
			return T(s, name)
		}}
	}
	return &PtrV{kind: pkGlobal, key: key, typ: el, nonNil: true}
}

func (x *X) constSV(c *ssa.Const) SV {
	t := c.Type()
	if c.Value == nil {
		return x.enc.zero(t)
	}
	return x.enc.constant(c.Value, t)
}

func (x *X) term(fr *Frame, v ssa.Value) Term {
	return x.asTerm(x.val(fr, v), v.Type())
}

// execBlock executes the instructions of b starting in state cur and records
// the outgoing edge states.
func (x *X) execBlock(fr *Frame, b *ssa.BasicBlock, cur *State, edgeSt map[edge]*State, headers map[*ssa.BasicBlock]*loopInfo) {
	x.nilChecked = map[string]bool{}
	for _, in := range b.Instrs {
		x.stats.instrs++
		if p := in.Pos(); p.IsValid() {
			x.curPos = p
		}
		switch in := in.(type) {
		case *ssa.Phi:
			var sts []*State
			var vs []SV
			for i, p := range b.Preds {
				es := edgeSt[edge{p, b}]
				if es == nil {
					continue
				}
				sts = append(sts, es)
				vs = append(vs, x.val(fr, in.Edges[i]))
			}
			if len(vs) == 0 {
				fr.vals[in] = x.enc.zero(in.Type())
			} else {
				fr.vals[in] = x.mergeSV(sts, vs, "phi_"+in.Name())
			}
		case *ssa.If:
			c := x.term(fr, in.Cond)
			c = x.vc.define("cond", c)
			x.objInvCheck(fr, cur, b, in, b.Succs[0], "scope")
			x.objInvCheck(fr, cur, b, in, b.Succs[1], "scope")
			t := cur.clone()
			t.reach = x.vc.define("reach", mkAnd(cur.reach, c))
			f := cur.clone()
			f.reach = x.vc.define("reach", mkAnd(cur.reach, mkNot(c)))
			x.takeEdge(fr, b, b.Succs[0], t, edgeSt, headers)
			x.takeEdge(fr, b, b.Succs[1], f, edgeSt, headers)
			return
		case *ssa.Jump:
			x.objInvCheck(fr, cur, b, in, b.Succs[0], "scope")
			x.takeEdge(fr, b, b.Succs[0], cur, edgeSt, headers)
			return
		case *ssa.Return:
			vals := make([]SV, len(in.Results))
			for i, r := range in.Results {
				vals[i] = x.val(fr, r)
			}
			x.objInvCheck(fr, cur, b, in, nil, "return")
			fr.retSts = append(fr.retSts, cur)
			fr.retVals = append(fr.retVals, vals)
			return
		case *ssa.Panic:
			if x.topC != nil && x.topC.NoSafety && fr.fn == x.top {
				// panics by contract (Must* functions): the path simply does not return
				return
			}
			x.safety(cur, fr, "panic", tFalse, in.Pos())
			return
		default:
			x.execInstr(fr, cur, in)
		}
	}
}

func (x *X) takeEdge(fr *Frame, from, to *ssa.BasicBlock, st *State, edgeSt map[edge]*State, headers map[*ssa.BasicBlock]*loopInfo) {
	if li := headers[to]; li != nil && li.body[from] {
		x.backEdge(fr, li, st)
		return
	}
	edgeSt[edge{from, to}] = st
}

func (x *X) execInstr(fr *Frame, st *State, in ssa.Instruction) {
	switch in := in.(type) {
	case *ssa.DebugRef:
	case *ssa.Alloc:
		fr.vals[in] = x.alloc(st, fr, in)
	case *ssa.Store:
		p := x.ptrOf(x.val(fr, in.Addr), in.Addr.Type())
		x.nilCheck(st, fr, p, in.Pos())
		v := x.val(fr, in.Val)
		x.store(st, p, x.asTerm(v, in.Val.Type()))
	case *ssa.UnOp:
		fr.vals[in] = x.unop(fr, st, in)
	case *ssa.BinOp:
		fr.vals[in] = x.binop(fr, st, in)
	case *ssa.Call:
		if !x.callCannotSeeModuleObjects(in.Common()) {
			x.objInvCheck(fr, st, in.Block(), in, nil, "call")
		}
		rets := x.call(fr, st, in.Common(), in, in.Pos())
		sig := in.Common().Signature()
		switch sig.Results().Len() {
		case 0:
		case 1:
			fr.vals[in] = rets[0]
		default:
			fr.vals[in] = TupleV(rets)
		}
	case *ssa.Extract:
		fr.vals[in] = x.val(fr, in.Tuple).(TupleV)[in.Index]
	case *ssa.ChangeType:
		fr.vals[in] = x.val(fr, in.X)
	case *ssa.Convert:
		fr.vals[in] = x.convert(fr, st, in)
	case *ssa.ChangeInterface:
		v := x.term(fr, in.X)
		from, to := in.X.Type(), in.Type()
		switch {
		case isErrorType(from) && !isErrorType(to):
			fr.vals[in] = mkIte(mkEq(v, intLit(0)), T(SAny, "ANil"), app(SAny, "AErr", v))
		case !isErrorType(from) && isErrorType(to):
			fr.vals[in] = mkIte(T(SBool, "((_ is AErr) "+v.S+")"), app(SInt, "aerr", v), intLit(0))
		default:
			fr.vals[in] = v
		}
	case *ssa.MakeInterface:
		if isErrorType(in.Type()) {
			// concrete error value: identity = boxed
			inner := x.makeInterface(x.val(fr, in.X), in.X.Type())
			e := x.vc.fresh("errval", SInt)
			x.vc.assume(mkNot(mkEq(e, intLit(0))))
			x.errFromAny(e, inner)
			fr.vals[in] = e
		} else {
			fr.vals[in] = x.makeInterface(x.val(fr, in.X), in.X.Type())
		}
	case *ssa.TypeAssert:
		fr.vals[in] = x.typeAssert(fr, st, in)
	case *ssa.FieldAddr:
		p := x.ptrOf(x.val(fr, in.X), in.X.Type())
		x.nilCheck(st, fr, p, in.Pos())
		x.objInvAssume(fr, st, x.val(fr, in.X), in.X.Type(), in.Field)
		np := *p
		np.path = append(append([]int{}, p.path...), in.Field)
		np.nonNil = true
		fr.vals[in] = &np
	case *ssa.Field:
		v := x.term(fr, in.X)
		fr.vals[in] = x.enc.structField(in.X.Type(), v, in.Field)
	case *ssa.IndexAddr:
		fr.vals[in] = x.indexAddr(fr, st, in)
	case *ssa.Index:
		fr.vals[in] = x.index(fr, st, in)
	case *ssa.Lookup:
		fr.vals[in] = x.lookup(fr, st, in)
	case *ssa.Slice:
		fr.vals[in] = x.slice(fr, st, in)
	case *ssa.MakeSlice:
		ln := x.toLen(x.term(fr, in.Len), in.Len.Type())
		cp := x.toLen(x.term(fr, in.Cap), in.Cap.Type())
		x.safety(st, fr, "makeslice", mkAnd(x.ile(x.ic(0), ln), x.ile(ln, cp)), in.Pos())
		el := in.Type().Underlying().(*types.Slice).Elem()
		r := x.newRef(st, "slice")
		es := x.enc.sortOf(el)
		k := x.elemsKey(es)
		inner := arraySort(x.enc.isz(), es)
		st.mem[k] = x.vc.define("h", mkStore(x.get(st, k), r, app(inner, "(as const "+string(inner)+")", x.enc.zero(el))))
		fr.vals[in] = x.vc.define("mkslice", x.mkSlice(r, x.ic(0), ln, cp))
	case *ssa.MakeMap:
		mt := in.Type().Underlying().(*types.Map)
		fr.vals[in] = x.makeMap(st, mt)
	case *ssa.MapUpdate:
		x.mapUpdate(fr, st, in)
	case *ssa.MakeClosure:
		c := &ClosV{fn: in.Fn.(*ssa.Function)}
		for _, b := range in.Bindings {
			c.binds = append(c.binds, x.val(fr, b))
		}
		fr.vals[in] = c
	case *ssa.Defer:
		x.deferCall(fr, st, in)
	case *ssa.RunDefers:
		x.runDefers(fr, st)
	case *ssa.Range:
		fr.vals[in] = x.rangeInit(fr, st, in)
	case *ssa.Next:
		fr.vals[in] = x.rangeNext(fr, st, in)
	case *ssa.Select:
		fr.vals[in] = x.selectInstr(fr, st, in)
	case *ssa.Go, *ssa.Send:
		x.enc.unsupported("goroutine/channel send")
	default:
		x.enc.unsupported(fmt.Sprintf("instruction %T in %s", in, fr.name))
		if v, ok := in.(ssa.Value); ok {
			fr.vals[v] = x.havocValue(st, v.Type())
		}
	}
}

func (x *X) havocValue(st *State, t types.Type) SV {
	if tup, ok := t.(*types.Tuple); ok {
		out := make(TupleV, tup.Len())
		for i := range out {
			out[i] = x.havocValue(st, tup.At(i).Type())
		}
		return out
	}
	v := x.vc.fresh("havoc", x.enc.sortOf(t))
	x.assumeWF(st, v, t)
	return v
}

func (x *X) unop(fr *Frame, st *State, in *ssa.UnOp) SV {
	switch in.Op {
	case token.MUL:
		p := x.ptrOf(x.val(fr, in.X), in.X.Type())
		x.nilCheck(st, fr, p, in.Pos())
		v := x.load(st, p)
		if c, ok := x.closures[v.S]; ok {
			return c
		}
		if p.kind != pkLocal {
			v = x.vc.define("ld", v)
			x.assumeWF(st, v, in.Type())
			x.embeddedNonNil(p, v)
		}
		return v
	case token.NOT:
		return mkNot(x.term(fr, in.X))
	case token.SUB:
		v := x.term(fr, in.X)
		if isFloat(in.Type()) {
			return app(v.Sort, "fp.neg", v)
		}
		if x.enc.bv {
			return app(v.Sort, "bvneg", v)
		}
		return x.enc.wrap(app(SInt, "-", v), in.Type())
	case token.XOR:
		v := x.term(fr, in.X)
		if x.enc.bv {
			return app(v.Sort, "bvnot", v)
		}
		_, signed, _ := intInfo(in.Type())
		if signed {
			return app(SInt, "-", app(SInt, "-", v), intLit(1))
		}
		x.enc.unsupported("bitwise complement on unsigned in Int mode")
		return x.havocValue(st, in.Type())
	case token.ARROW:
		x.enc.unsupported("channel receive")
		return x.havocValue(st, in.Type())
	}
	panic("unop " + in.Op.String())
}

func (x *X) binop(fr *Frame, st *State, in *ssa.BinOp) SV {
	xt := in.X.Type()
	a, b := x.val(fr, in.X), x.val(fr, in.Y)
	switch in.Op {
	case token.EQL, token.NEQ:
		eq := x.equal(fr, a, b, xt, in.Y.Type())
		if in.Op == token.NEQ {
			return mkNot(eq)
		}
		return eq
	}
	at, bt := x.asTerm(a, xt), x.asTerm(b, in.Y.Type())
	switch {
	case isFloat(xt):
		switch in.Op {
		case token.LSS, token.LEQ, token.GTR, token.GEQ:
			return x.enc.floatCmp(in.Op, at, bt)
		}
		if r, ok := x.enc.floatArith(in.Op, at, bt); ok {
			return r
		}
	case isString(xt):
		switch in.Op {
		case token.ADD:
			r := x.vc.define("cat", app(SStr, "strcat", at, bt))
			x.vc.assume(mkEq(app(x.enc.isz(), "strlen", r), x.iadd(app(x.enc.isz(), "strlen", at), app(x.enc.isz(), "strlen", bt))))
			return r
		case token.LSS:
			return app(SBool, "strlt", at, bt)
		case token.GTR:
			return app(SBool, "strlt", bt, at)
		case token.LEQ:
			return mkNot(app(SBool, "strlt", bt, at))
		case token.GEQ:
			return mkNot(app(SBool, "strlt", at, bt))
		}
	case isBool(xt):
		switch in.Op {
		case token.AND, token.LAND:
			return mkAnd(at, bt)
		case token.OR, token.LOR:
			return mkOr(at, bt)
		}
	default:
		if _, _, ok := intInfo(xt); ok {
			switch in.Op {
			case token.LSS, token.LEQ, token.GTR, token.GEQ:
				return x.enc.intCmp(in.Op, at, bt, xt)
			case token.QUO, token.REM:
				x.safety(st, fr, "div-by-zero", mkNot(mkEq(bt, x.enc.intConst(0, xt))), in.Pos())
			case token.SHL, token.SHR:
				return x.shift(st, in, at, bt)
			}
			if r, ok := x.enc.intArith(in.Op, at, bt, xt); ok {
				return x.vc.define("ar", r)
			}
			// bit operations in Int mode: opaque
			x.enc.unsupported("bit operation " + in.Op.String() + " in Int mode (opaque)")
			fn := "bitop_" + sanitize(in.Op.String())
			if !x.enc.declared[fn] {
				x.enc.declared[fn] = true
				x.vc.decl(fmt.Sprintf("(declare-fun %s (Int Int) Int)", fn))
			}
			r := x.vc.define("bit", app(SInt, fn, at, bt))
			x.vc.assume(x.enc.rangeFact(r, in.Type()))
			return r
		}
	}
	x.enc.unsupported(fmt.Sprintf("binop %s on %s", in.Op, xt))
	return x.havocValue(st, in.Type())
}

func (x *X) shift(st *State, in *ssa.BinOp, a, b Term) SV {
	xt := in.X.Type()
	if x.enc.bv {
		wa, _, _ := intInfo(xt)
		bb := x.enc.convertInt(b, in.Y.Type(), xt)
		_ = wa
		r, _ := x.enc.intArith(in.Op, a, bb, xt)
		return r
	}
	if c, ok := in.Y.(*ssa.Const); ok && c.Value != nil {
		n, _ := constant.Int64Val(constant.ToInt(c.Value))
		if n >= 0 && n < 63 {
			p := intLit(int64(1) << uint(n))
			if in.Op == token.SHL {
				return x.enc.wrap(app(SInt, "*", a, p), xt)
			}
			return app(SInt, "div", a, p)
		}
	}
	x.enc.unsupported("shift by non-constant in Int mode")
	return x.havocValue(st, in.Type())
}

// equal encodes Go's == for two operands.
func (x *X) equal(fr *Frame, a, b SV, at, bt types.Type) Term {
	// pointers that are static
	if pa, ok := a.(*PtrV); ok {
		if pb, ok := b.(*PtrV); ok {
			ta, oka := x.ptrTerm(pa)
			tb, okb := x.ptrTerm(pb)
			if oka && okb {
				return mkEq(ta, tb)
			}
			return mkBool(pa.kind == pb.kind && pa.key == pb.key && fmt.Sprint(pa.path) == fmt.Sprint(pb.path) && pa.ref.S == pb.ref.S && pa.idx.S == pb.idx.S)
		}
		if tb, ok := b.(Term); ok && tb.S == "0" {
			if ta, ok := x.ptrTerm(pa); ok && !pa.nonNil {
				return mkEq(ta, tb)
			}
			return tFalse
		}
	}
	if pb, ok := b.(*PtrV); ok {
		if ta, ok := a.(Term); ok && ta.S == "0" {
			if tb, ok := x.ptrTerm(pb); ok && !pb.nonNil {
				return mkEq(ta, tb)
			}
			return tFalse
		}
	}
	ta, tb := x.asTerm(a, at), x.asTerm(b, bt)
	if isFloat(at) {
		return app(SBool, "fp.eq", ta, tb)
	}
	// a slice can only be compared with nil: it is nil when it has no backing array
	if _, ok := at.Underlying().(*types.Slice); ok && ta.Sort == SSlice && tb.Sort == SSlice {
		if z := x.enc.zero(at); tb.S == z.S {
			return mkEq(app(SInt, "sbase", ta), intLit(0))
		} else if ta.S == z.S {
			return mkEq(app(SInt, "sbase", tb), intLit(0))
		}
	}
	// comparing an interface with a concrete value
	if ta.Sort == SAny && tb.Sort != SAny {
		tb = x.makeInterface(tb, bt)
	}
	if tb.Sort == SAny && ta.Sort != SAny {
		ta = x.makeInterface(ta, at)
	}
	return mkEq(ta, tb)
}

func (x *X) convert(fr *Frame, st *State, in *ssa.Convert) SV {
	from, to := in.X.Type(), in.Type()
	v := x.val(fr, in.X)
	_, _, fi := intInfo(from)
	_, _, ti := intInfo(to)
	switch {
	case fi && ti:
		return x.enc.convertInt(x.asTerm(v, from), from, to)
	case fi && isFloat(to):
		return x.enc.intToFloat(x.asTerm(v, from), from, x.enc.sortOf(to))
	case isFloat(from) && ti:
		return x.vc.define("f2i", x.enc.floatToInt(x.asTerm(v, from), to))
	case isFloat(from) && isFloat(to):
		vt := x.asTerm(v, from)
		ts := x.enc.sortOf(to)
		if vt.Sort == ts {
			return vt
		}
		return app(ts, fmt.Sprintf("(_ to_fp %s) RNE", fpSortArgs(ts)), vt)
	case isString(from) && isString(to):
		return v
	case isString(to) && fi:
		// string(rune)
		return x.uf("runestr", SStr, x.asTerm(v, from))
	case isString(to):
		// []byte / []rune -> string
		s := x.asTerm(v, from)
		base, off, ln, _ := x.sliceParts(s)
		el := from.Underlying().(*types.Slice).Elem()
		es := x.enc.sortOf(el)
		inner := mkSelect(x.get(st, x.elemsKey(es)), base, arraySort(x.enc.isz(), es))
		r := x.vc.fresh("str", SStr)
		x.vc.assume(mkEq(r, x.ufS("strofbytes_"+sanitize(string(es)), SStr, inner, off, ln)))
		if _, _, isByte := intInfo(el); isByte && el.Underlying().(*types.Basic).Kind() == types.Uint8 {
			x.vc.assume(mkEq(app(x.enc.isz(), "strlen", r), ln))
			x.strBytesAxiom(r, inner, off)
		} else {
			x.vc.assume(x.ile(x.ic(0), app(x.enc.isz(), "strlen", r)))
		}
		return r
	case isString(from):
		// string -> []byte / []rune
		s := x.asTerm(v, from)
		el := to.Underlying().(*types.Slice).Elem()
		es := x.enc.sortOf(el)
		r := x.newRef(st, "bytes")
		k := x.elemsKey(es)
		inner := x.vc.fresh("bytes", arraySort(x.enc.isz(), es))
		x.vc.assume(mkEq(inner, x.ufS("bytesof_"+sanitize(string(es)), arraySort(x.enc.isz(), es), s)))
		st.mem[k] = x.vc.define("h", mkStore(x.get(st, k), r, inner))
		var ln Term
		if b, ok := el.Underlying().(*types.Basic); ok && b.Kind() == types.Uint8 {
			ln = app(x.enc.isz(), "strlen", s)
			x.strBytesAxiom(s, inner, x.ic(0))
			// string([]byte(s)) == s
			x.vc.assume(mkEq(x.ufS("strofbytes_"+sanitize(string(es)), SStr, inner, x.ic(0), ln), s))
		} else {
			ln = x.vc.fresh("nrunes", x.enc.isz())
			x.vc.assume(mkAnd(x.ile(x.ic(0), ln), x.ile(ln, app(x.enc.isz(), "strlen", s))))
		}
		return x.vc.define("sl", x.mkSlice(r, x.ic(0), ln, ln))
	case isUnsafePointer(from) || isUnsafePointer(to):
		return v
	}
	x.enc.unsupported(fmt.Sprintf("conversion %s -> %s", from, to))
	return x.havocValue(st, to)
}

func isUnsafePointer(t types.Type) bool {
	b, ok := t.Underlying().(*types.Basic)
	return ok && b.Kind() == types.UnsafePointer
}

// strBytesAxiom links a string with a byte array: s[i] == arr[off+i].
func (x *X) strBytesAxiom(s Term, inner Term, off Term) {
	if x.enc.bv {
		return
	}
	x.vc.assume(T(SBool, fmt.Sprintf("(forall ((i Int)) (! (=> (and (<= 0 i) (< i (strlen %s))) (= (strat %s i) (select %s (+ %s i)))) :pattern ((strat %s i))))", s.S, s.S, inner.S, off.S, s.S)))
}

func (x *X) uf(name string, res Sort, args ...Term) Term { return x.ufS(name, res, args...) }

func (x *X) ufS(name string, res Sort, args ...Term) Term {
	if !x.enc.declared["uf:"+name] {
		x.enc.declared["uf:"+name] = true
		s := ""
		for i, a := range args {
			if i > 0 {
				s += " "
			}
			s += string(a.Sort)
		}
		x.vc.decl(fmt.Sprintf("(declare-fun %s (%s) %s)", name, s, res))
		// what the function answers on the string constants seen so far
		for _, lit := range sortedKeys(x.enc.strLits) {
			x.enc.literalFacts(name, x.enc.strLits[lit], lit)
		}
	}
	return app(res, name, args...)
}

func (x *X) typeAssert(fr *Frame, st *State, in *ssa.TypeAssert) SV {
	v := x.term(fr, in.X)
	if isErrorType(in.X.Type()) {
		// error -> concrete/interface: lift to Any
		v = mkIte(mkEq(v, intLit(0)), T(SAny, "ANil"), app(SAny, "AErr", v))
		x.enc.unsupported("type assertion on error value (dynamic type abstracted)")
		if in.CommaOk {
			return TupleV{x.havocValue(st, in.AssertedType), x.vc.fresh("taok", SBool)}
		}
		return x.havocValue(st, in.AssertedType)
	}
	c, pv := x.typeTest(v, in.AssertedType)
	c = x.vc.define("is", c)
	if pt, ok := pv.(Term); ok {
		// the projected value has the type invariant of the asserted type
		if f := x.wfFact(pt, in.AssertedType, x.get(st, x.allocKey())); f.S != "true" {
			x.vc.assume(mkImplies(c, f))
		}
	}
	if !in.CommaOk {
		x.safety(st, fr, "type-assert", c, in.Pos())
		return pv
	}
	pt := x.asTerm(pv, in.AssertedType)
	return TupleV{mkIte(c, pt, x.enc.zero(in.AssertedType)), c}
}

func (x *X) indexAddr(fr *Frame, st *State, in *ssa.IndexAddr) SV {
	i := x.toLen(x.term(fr, in.Index), in.Index.Type())
	switch xt := in.X.Type().Underlying().(type) {
	case *types.Slice:
		s := x.term(fr, in.X)
		base, off, ln, _ := x.sliceParts(s)
		x.safety(st, fr, "index", mkAnd(x.ile(x.ic(0), i), x.ilt(i, ln)), in.Pos())
		idx := x.vc.define("idx", x.iadd(off, i))
		x.instHints(fr, base, idx, xt)
		return &PtrV{kind: pkElem, ref: base, idx: idx, typ: xt.Elem(), nonNil: true}
	case *types.Pointer:
		arr := xt.Elem().Underlying().(*types.Array)
		p := x.ptrOf(x.val(fr, in.X), in.X.Type())
		x.nilCheck(st, fr, p, in.Pos())
		x.safety(st, fr, "index", mkAnd(x.ile(x.ic(0), i), x.ilt(i, x.ic(arr.Len()))), in.Pos())
		if p.kind == pkGlobal || p.kind == pkLocal {
			np := *p
			np.arrIdx = i
			return &np
		}
		return &PtrV{kind: pkElem, ref: p.ref, idx: i, typ: arr.Elem(), nonNil: true}
	}
	panic("indexAddr on " + in.X.Type().String())
}

func (x *X) index(fr *Frame, st *State, in *ssa.Index) SV {
	i := x.toLen(x.term(fr, in.Index), in.Index.Type())
	switch xt := in.X.Type().Underlying().(type) {
	case *types.Basic: // string
		s := x.term(fr, in.X)
		x.safety(st, fr, "index", mkAnd(x.ile(x.ic(0), i), x.ilt(i, app(x.enc.isz(), "strlen", s))), in.Pos())
		r := x.vc.define("ch", app(x.enc.intSortW(8), "strat", s, i))
		x.vc.assume(x.enc.rangeFact(r, types.Typ[types.Uint8]))
		return r
	case *types.Array:
		a := x.term(fr, in.X)
		x.safety(st, fr, "index", mkAnd(x.ile(x.ic(0), i), x.ilt(i, x.ic(xt.Len()))), in.Pos())
		return mkSelect(a, i, x.enc.sortOf(xt.Elem()))
	}
	panic("index on " + in.X.Type().String())
}

func (x *X) slice(fr *Frame, st *State, in *ssa.Slice) SV {
	var lo, hi, mx Term
	if in.Low != nil {
		lo = x.toLen(x.term(fr, in.Low), in.Low.Type())
	} else {
		lo = x.ic(0)
	}
	switch xt := in.X.Type().Underlying().(type) {
	case *types.Slice:
		s := x.term(fr, in.X)
		base, off, ln, cp := x.sliceParts(s)
		_ = ln
		if in.High != nil {
			hi = x.toLen(x.term(fr, in.High), in.High.Type())
		} else {
			hi = ln
		}
		if in.Max != nil {
			mx = x.toLen(x.term(fr, in.Max), in.Max.Type())
		} else {
			mx = cp
		}
		x.safety(st, fr, "slice-bounds", mkAnd(x.ile(x.ic(0), lo), x.ile(lo, hi), x.ile(hi, mx), x.ile(mx, cp)), in.Pos())
		return x.vc.define("sl", x.mkSlice(base, x.iadd(off, lo), x.isub(hi, lo), x.isub(mx, lo)))
	case *types.Basic: // string
		s := x.term(fr, in.X)
		ln := app(x.enc.isz(), "strlen", s)
		if in.High != nil {
			hi = x.toLen(x.term(fr, in.High), in.High.Type())
		} else {
			hi = ln
		}
		x.safety(st, fr, "slice-bounds", mkAnd(x.ile(x.ic(0), lo), x.ile(lo, hi), x.ile(hi, ln)), in.Pos())
		r := x.vc.fresh("sub", SStr)
		x.vc.assume(mkEq(r, app(SStr, "substr", s, lo, hi)))
		x.vc.assume(mkEq(app(x.enc.isz(), "strlen", r), x.isub(hi, lo)))
		if !x.enc.bv {
			x.vc.assume(T(SBool, fmt.Sprintf("(forall ((i Int)) (! (=> (and (<= 0 i) (< i (- %s %s))) (= (strat %s i) (strat %s (+ %s i)))) :pattern ((strat %s i))))", hi.S, lo.S, r.S, s.S, lo.S, r.S)))
		}
		return r
	case *types.Pointer:
		arr := xt.Elem().Underlying().(*types.Array)
		p := x.ptrOf(x.val(fr, in.X), in.X.Type())
		n := x.ic(arr.Len())
		if in.High != nil {
			hi = x.toLen(x.term(fr, in.High), in.High.Type())
		} else {
			hi = n
		}
		x.safety(st, fr, "slice-bounds", mkAnd(x.ile(x.ic(0), lo), x.ile(lo, hi), x.ile(hi, n)), in.Pos())
		return x.vc.define("sl", x.mkSlice(p.ref, lo, x.isub(hi, lo), x.isub(n, lo)))
	}
	panic("slice on " + in.X.Type().String())
}

// ---------------------------------------------------------------------------
// maps

func (x *X) makeMap(st *State, mt *types.Map) Term {
	ks, vs := x.enc.sortOf(mt.Key()), x.enc.sortOf(mt.Elem())
	has, getk, lenk := x.mapKeys(ks, vs)
	r := x.newRef(st, "map")
	hs := arraySort(ks, SBool)
	st.mem[has] = x.vc.define("h", mkStore(x.get(st, has), r, app(hs, "(as const "+string(hs)+")", tFalse)))
	st.mem[lenk] = x.vc.define("h", mkStore(x.get(st, lenk), r, x.ic(0)))
	_ = getk
	return r
}

func (x *X) mapRead(st *State, m Term, k Term, mt *types.Map) (val Term, ok Term) {
	ks, vs := x.enc.sortOf(mt.Key()), x.enc.sortOf(mt.Elem())
	has, getk, _ := x.mapKeys(ks, vs)
	ok = mkSelect(mkSelect(x.get(st, has), m, arraySort(ks, SBool)), k, SBool)
	// nil map reads as empty
	ok = mkAnd(mkNot(mkEq(m, intLit(0))), ok)
	val = mkIte(ok, mkSelect(mkSelect(x.get(st, getk), m, arraySort(ks, vs)), k, vs), x.enc.zero(mt.Elem()))
	return
}

func (x *X) lookup(fr *Frame, st *State, in *ssa.Lookup) SV {
	switch xt := in.X.Type().Underlying().(type) {
	case *types.Map:
		m := x.term(fr, in.X)
		k := x.term(fr, in.Index)
		val, ok := x.mapRead(st, m, k, xt)
		val = x.vc.define("mv", val)
		x.assumeWF(st, val, xt.Elem())
		if in.CommaOk {
			return TupleV{val, x.vc.define("mok", ok)}
		}
		return val
	case *types.Basic:
		s := x.term(fr, in.X)
		i := x.toLen(x.term(fr, in.Index), in.Index.Type())
		x.safety(st, fr, "index", mkAnd(x.ile(x.ic(0), i), x.ilt(i, app(x.enc.isz(), "strlen", s))), in.Pos())
		r := x.vc.define("ch", app(x.enc.intSortW(8), "strat", s, i))
		x.vc.assume(x.enc.rangeFact(r, types.Typ[types.Uint8]))
		return r
	}
	panic("lookup")
}

func (x *X) mapUpdate(fr *Frame, st *State, in *ssa.MapUpdate) {
	mt := in.Map.Type().Underlying().(*types.Map)
	m := x.term(fr, in.Map)
	k := x.term(fr, in.Key)
	v := x.asTerm(x.val(fr, in.Value), in.Value.Type())
	x.safety(st, fr, "nil-map-write", mkNot(mkEq(m, intLit(0))), in.Pos())
	ks, vs := x.enc.sortOf(mt.Key()), x.enc.sortOf(mt.Elem())
	has, getk, lenk := x.mapKeys(ks, vs)
	hArr := x.get(st, has)
	hInner := mkSelect(hArr, m, arraySort(ks, SBool))
	was := mkSelect(hInner, k, SBool)
	lArr := x.get(st, lenk)
	st.mem[lenk] = x.vc.define("h", mkStore(lArr, m, mkIte(was, mkSelect(lArr, m, x.enc.isz()), x.iadd(mkSelect(lArr, m, x.enc.isz()), x.ic(1)))))
	st.mem[has] = x.vc.define("h", mkStore(hArr, m, mkStore(hInner, k, tTrue)))
	gArr := x.get(st, getk)
	st.mem[getk] = x.vc.define("h", mkStore(gArr, m, mkStore(mkSelect(gArr, m, arraySort(ks, vs)), k, v)))
}

func (x *X) mapLen(st *State, m Term, mt *types.Map) Term {
	ks, vs := x.enc.sortOf(mt.Key()), x.enc.sortOf(mt.Elem())
	_, _, lenk := x.mapKeys(ks, vs)
	l := x.vc.define("maplen", mkIte(mkEq(m, intLit(0)), x.ic(0), mkSelect(x.get(st, lenk), m, x.enc.isz())))
	x.vc.assume(x.ile(x.ic(0), l))
	x.vc.assume(x.ile(l, x.ic(0x3fffffffffffffff)))
	return l
}

// ---------------------------------------------------------------------------
// range over string / map (only the shapes the code base uses)

type rangeV struct {
	x    Term
	t    types.Type
	posK string
}

func (x *X) rangeInit(fr *Frame, st *State, in *ssa.Range) SV {
	// iteration position lives in a ghost cell so that loops can havoc it
	key := x.scalarKey(fmt.Sprintf("L%d:range:%s", fr.id, in.Name()), x.enc.isz(), func() Term { return x.ic(0) })
	st.mem[key] = x.ic(0)
	return &rangeV{x: x.term(fr, in.X), t: in.X.Type(), posK: key}
}

func (x *X) rangeNext(fr *Frame, st *State, in *ssa.Next) SV {
	rv := x.val(fr, in.Iter).(*rangeV)
	pos := x.get(st, rv.posK)
	if in.IsString {
		ln := app(x.enc.isz(), "strlen", rv.x)
		ok := x.vc.define("rng_ok", x.ilt(pos, ln))
		// rune decoding abstracted: width 1..4, rune arbitrary but consistent with ASCII bytes
		w := x.vc.fresh("rng_w", x.enc.isz())
		r := x.vc.fresh("rng_rune", x.enc.intSortW(32))
		b0 := app(x.enc.intSortW(8), "strat", rv.x, pos)
		x.vc.assume(mkImplies(ok, mkAnd(x.ile(x.ic(1), w), x.ile(w, x.ic(4)), x.ile(x.iadd(pos, w), ln))))
		x.vc.assume(x.enc.rangeFact(r, types.Typ[types.Int32]))
		if !x.enc.bv {
			x.vc.assume(mkImplies(mkAnd(ok, app(SBool, "<", b0, intLit(128))), mkAnd(mkEq(w, x.ic(1)), mkEq(r, b0))))
			x.vc.assume(mkImplies(mkAnd(ok, app(SBool, ">=", b0, intLit(128))), app(SBool, ">=", r, intLit(128))))
		}
		x.enc.assumption("range over string: UTF-8 decoding abstracted (ASCII bytes decode to themselves, others to a rune >= 0x80 of width 1..4)")
		st.mem[rv.posK] = x.vc.define("rng_pos", mkIte(ok, x.iadd(pos, w), pos))
		return TupleV{ok, pos, r}
	}
	x.enc.unsupported("range over map (iteration abstracted)")
	mt := rv.t.Underlying().(*types.Map)
	ok := x.vc.fresh("rng_ok", SBool)
	return TupleV{ok, x.havocValue(st, mt.Key()), x.havocValue(st, mt.Elem())}
}

func (x *X) selectInstr(fr *Frame, st *State, in *ssa.Select) SV {
	// only the non-blocking poll of ctx.Done() is modelled
	if !in.Blocking && len(in.States) == 1 && in.States[0].Dir == types.RecvOnly {
		ch := x.term(fr, in.States[0].Chan)
		done := x.chanReady(st, ch)
		idx := mkIte(done, x.enc.intConst(0, types.Typ[types.Int]), x.enc.intConst(-1, types.Typ[types.Int]))
		out := TupleV{idx, done}
		tup := in.Type().(*types.Tuple)
		for i := 2; i < tup.Len(); i++ {
			out = append(out, x.havocValue(st, tup.At(i).Type()))
		}
		return out
	}
	x.enc.unsupported("select statement")
	return x.havocValue(st, in.Type())
}

// chanReady: a closed Done() channel is ready; modelled through the ghost
// cell ctxDone (monotone: calls may only turn it from false to true).
func (x *X) chanReady(st *State, ch Term) Term {
	return x.get(st, x.ctxDoneKey())
}

func (x *X) ctxDoneKey() string {
	return x.scalarKey("ghost:ctxDone", SBool, func() Term {
		x.vc.decl("(declare-const ctxDone0 Bool)")
		return T(SBool, "ctxDone0")
	})
}

// embeddedNonNil: an embedded pointer field of a struct of another module
// package (AST node parts such as StringNode.quotedString) is never nil in
// values built by that package's constructors.
func (x *X) embeddedNonNil(p *PtrV, v Term) {
	if p.kind != pkObj || len(p.path) != 1 || x.top == nil || x.top.Pkg == nil {
		return
	}
	n, ok := p.typ.(*types.Named)
	if !ok || !x.enc.inModule(n) || n.Obj().Pkg() == x.top.Pkg.Pkg {
		return
	}
	f := n.Underlying().(*types.Struct).Field(p.path[0])
	if !f.Embedded() {
		return
	}
	if _, isPtr := f.Type().Underlying().(*types.Pointer); !isPtr {
		return
	}
	x.vc.assume(mkImplies(mkNot(mkEq(p.ref, intLit(0))), mkNot(mkEq(v, intLit(0)))))
	x.enc.assumption("wfAST: embedded pointer parts of " + n.Obj().Pkg().Name() + " nodes (" + n.Obj().Name() + "." + f.Name() + ") are non-nil (set by the constructors)")
}

// instHints: the solvers do not find the instance of a quantified
// precondition `forall i: ... p[i] ...` that an element read of a re-sliced
// view of p needs (the index differs by the offsets, which defeats pattern
// matching). Every instance of an assumed universal fact is itself a fact, so
// at each element read of a slice the assumed preconditions are instantiated
// at the position the element has in each slice parameter of the same element
// type that shares the backing array.
func (x *X) instHints(fr *Frame, base, idx Term, st *types.Slice) {
	if len(x.assumedForalls) == 0 || x.pure > 0 || x.vc.quant > 0 || fr.fn != x.top {
		return
	}
	if x.instDone == nil {
		x.instDone = map[string]bool{}
	}
	for pi, p := range x.top.Params {
		ps, ok := p.Type().Underlying().(*types.Slice)
		if !ok || !types.Identical(ps.Elem(), st.Elem()) {
			continue
		}
		pt, ok := fr.params[pi].(Term)
		if !ok {
			continue
		}
		pbase, poff, _, _ := x.sliceParts(pt)
		key := fmt.Sprintf("%d|%s", pi, idx.S)
		if x.instDone[key] || len(x.instDone) > 64 {
			continue
		}
		x.instDone[key] = true
		at := x.vc.define("inst", x.isub(idx, poff))
		for _, f := range x.assumedForalls {
			x.vc.assume(mkImplies(mkEq(pbase, base), f(at)))
		}
	}
}
