package main

// Contract files: //@ comment blocks in *_verif.go files (build tag verif)
// of the packages under verification, keyed by function and loop ordinal.

import (
	"fmt"
	"go/ast"
	"go/parser"
	"go/token"
	"go/types"
	"regexp"
	"sort"
	"strconv"
	"strings"

	"golang.org/x/tools/go/packages"
	"golang.org/x/tools/go/ssa"
)

type Clause struct {
	Kind   string // requires ensures invariant decreases atcall let
	Label  string
	Props  []string
	Text   string
	Loop   int
	Callee string // atcall
	Name   string // let
	Line   string // file:line of the clause
	// compiled lazily
	expr  ast.Expr
	info  *types.Info
	names map[string]types.Type // wrapper parameter names
	err   error
}

// internal clauses talk about the function's own call trace / ghost state and
// are proved of the body but never assumed at call sites.
func (cl *Clause) internal() bool {
	if strings.HasPrefix(cl.Label, "local-") {
		return true
	}
	for _, k := range []string{"ncalls(", "callarg[", "callret[", "firstret[", "pendingErr(", "pendingFailed(", "outCount(", "outFirst(", "outLast(", "deferActive(", "deferVal[", "deferObj["} {
		if strings.Contains(cl.Text, k) {
			return true
		}
	}
	return false
}

type Contract struct {
	Key         string // funcName
	Pkg         *packages.Package
	Fn          *ssa.Function
	Props       []string
	SafetyProps []string
	BV          bool
	Requires    []*Clause
	Assumes     []*Clause
	Ensures     []*Clause
	Invariants  []*Clause
	Decreases   []*Clause
	AtCalls     []*Clause
	Lets        []*Clause
	Modifies    []string
	HasModifies bool
	Pure        bool
	Trusted     string
	AlsoProps   map[string][]string
	NoInline    bool
	Inline      bool
	NoSchematic bool
	NoE6Failure bool
	// PropagatesErrors: every error a callee returns must be the error the
	// function returns (directive `propagates errors`)
	PropagatesErrors bool
	NoSafety         bool
	File             string
	Lift             string
	Ghost            bool // spec function (not code under verification)
	Swept            bool
}

type Lemma struct {
	Name   string
	Pkg    *packages.Package
	Props  []string
	BV     bool
	Forall []string // "name type" declarations
	Reqs   []*Clause
	Ens    []*Clause
	File   string
}

type ContractDB struct {
	byFn       map[*ssa.Function]*Contract
	byKey      map[string]*Contract
	lemmas     []*Lemma
	files      map[*packages.Package]*ast.File // contract file per package
	errors     []string
	fset       *token.FileSet
	sweeps     map[*packages.Package]*sweepSpec
	typeInvs   map[string][]typeInv // "pkgpath.TypeName" -> invariants
	objInvs    map[string][]*objInv // "pkgpath.TypeName" -> object invariants (objinv.go)
	frameProps map[string][]string  // heap array key -> extra properties of its frame obligations
	umbrella   map[string][]string  // property -> properties whose obligations it includes
	stale      []string             // clauses dropped because they name something the code no longer has
}

type typeInv struct {
	label string
	text  string // uses "self" for the pointer to the object
	props []string
	line  string
}

type sweepSpec struct {
	Props   []string
	Exclude []string
}

var clauseRe = regexp.MustCompile(`^(?:\[([A-Z0-9, ]+)\]\s*)?(?:([A-Za-z][A-Za-z0-9_\-\.]*):\s+)?(.*)$`)

func splitProps(s string) []string {
	var out []string
	for _, f := range strings.FieldsFunc(s, func(r rune) bool { return r == ',' || r == ' ' }) {
		if f != "" {
			out = append(out, f)
		}
	}
	return out
}

func parseClauseHead(rest string) (props []string, label, text string) {
	m := clauseRe.FindStringSubmatch(rest)
	if m == nil {
		return nil, "", rest
	}
	if m[1] != "" {
		props = splitProps(m[1])
	}
	return props, m[2], m[3]
}

func loadContracts(prog *ssa.Program, pkgs []*packages.Package) *ContractDB {
	db := &ContractDB{byFn: map[*ssa.Function]*Contract{}, byKey: map[string]*Contract{}, files: map[*packages.Package]*ast.File{}, fset: prog.Fset, sweeps: map[*packages.Package]*sweepSpec{}, typeInvs: map[string][]typeInv{}, objInvs: map[string][]*objInv{}, frameProps: map[string][]string{}, umbrella: map[string][]string{}}
	for _, pkg := range pkgs {
		for i, f := range pkg.Syntax {
			name := pkg.CompiledGoFiles[i]
			if !strings.HasSuffix(name, "_verif.go") {
				continue
			}
			if db.files[pkg] == nil {
				db.files[pkg] = f
			}
			db.parseFile(prog, pkg, f, name)
		}
	}
	return db
}

func (db *ContractDB) errorf(format string, a ...any) {
	msg := fmt.Sprintf(format, a...)
	if i := strings.Index(msg, staleMark); i >= 0 {
		// a clause that names something the code no longer has is dropped, not
		// fatal: the rest of the contract is still checked (see stale)
		msg = strings.TrimSpace(msg[:i] + msg[i+len(staleMark):])
		for _, s := range db.stale {
			if s == msg {
				return
			}
		}
		db.stale = append(db.stale, msg)
		return
	}
	db.errors = append(db.errors, msg)
}

// staleMark tags the error of a clause (or contract block) that refers to a
// name the current code does not have: a renamed local, a removed loop, a
// renamed unexported function. Such a clause cannot be checked; it is
// reported as STALE-CLAUSE and left out, and the run cannot be proof-level.
const staleMark = "[stale]"

func (db *ContractDB) parseFile(prog *ssa.Program, pkg *packages.Package, f *ast.File, fname string) {
	var cur *Contract
	var lem *Lemma
	var lastClause *Clause
	short := fname
	if i := strings.Index(fname, "/repo/"); i >= 0 {
		short = fname[i+6:]
	}
	for _, cg := range f.Comments {
		for _, c := range cg.List {
			line := c.Text
			if strings.HasPrefix(line, "// @ ") {
				w, _, _ := strings.Cut(strings.TrimSpace(line[4:]), " ")
				switch w {
				case "func", "requires", "ensures", "loop", "props", "modifies", "lemma", "atcall", "inline", "ghost", "pure", "trusted", "mode":
					db.errorf("%s:%d: contract directive was rewritten by gofmt (\"// @ %s\"): keep //@ blocks out of doc comments", short, db.fset.Position(c.Pos()).Line, w)
				}
			}
			if !strings.HasPrefix(line, "//@") {
				continue
			}
			pos := db.fset.Position(c.Pos())
			where := fmt.Sprintf("%s:%d", short, pos.Line)
			body := strings.TrimSpace(line[3:])
			if strings.HasPrefix(line, "//@+") {
				if lastClause != nil {
					lastClause.Text += " " + strings.TrimSpace(line[4:])
				}
				continue
			}
			if body == "" {
				continue
			}
			word, rest, _ := strings.Cut(body, " ")
			rest = strings.TrimSpace(rest)
			switch word {
			case "func":
				lem = nil
				fn := resolveFunc(prog, pkg, rest)
				if fn == nil {
					db.errorf("%s %s: contracted function %q not found in package %s (its contract block is left out)", staleMark, where, rest, pkg.PkgPath)
					cur = &Contract{Key: "?" + rest, Pkg: pkg}
					continue
				}
				cur = &Contract{Key: funcName(fn), Pkg: pkg, Fn: fn, File: where}
				if old := db.byFn[fn]; old != nil {
					db.errorf("%s: duplicate contract for %s", where, cur.Key)
				}
				db.byFn[fn] = cur
				db.byKey[cur.Key] = cur
				lastClause = nil
			case "typeinv":
				// typeinv TypeName [props] label: expr over self
				tn, r2, _ := strings.Cut(rest, " ")
				props, label, text := parseClauseHead(strings.TrimSpace(r2))
				key := pkg.PkgPath + "." + strings.TrimSuffix(tn, ":")
				db.typeInvs[key] = append(db.typeInvs[key], typeInv{label: label, text: text, props: props, line: where})
			case "objinv":
				// objinv TypeName [props] label: expr over self   (objinv.go)
				tn, r2, _ := strings.Cut(rest, " ")
				props, label, text := parseClauseHead(strings.TrimSpace(r2))
				key := pkg.PkgPath + "." + strings.TrimSuffix(tn, ":")
				db.objInvs[key] = append(db.objInvs[key], newObjInv(pkg, label, text, props, where))
			case "umbrella":
				// umbrella C01 C07 C10 …: the check of the first property also runs the
				// obligations of the others (it is stated as their conjunction)
				fs := strings.Fields(rest)
				if len(fs) >= 2 {
					db.umbrella[fs[0]] = append(db.umbrella[fs[0]], fs[1:]...)
				}
			case "grammar":
				// read by the extraction of the grammar actions (actions.go)
			case "frameprops":
				// frameprops Type.field C14 C01: further properties that rest on
				// this field being left as it was found (frame obligations)
				fs := strings.Fields(rest)
				if len(fs) >= 2 {
					db.frameProps["H:"+pkg.PkgPath+"."+fs[0]] = append(db.frameProps["H:"+pkg.PkgPath+"."+fs[0]], fs[1:]...)
				}
			case "sweep":
				// sweep safety C05 [exclude a,b]
				spec := &sweepSpec{}
				for _, f := range strings.Fields(rest) {
					switch {
					case strings.HasPrefix(f, "exclude="):
						spec.Exclude = strings.Split(strings.TrimPrefix(f, "exclude="), ",")
					case f == "safety":
					default:
						spec.Props = append(spec.Props, f)
					}
				}
				db.sweeps[pkg] = spec
			case "lemma":
				cur = nil
				lem = &Lemma{Name: rest, Pkg: pkg, File: where}
				db.lemmas = append(db.lemmas, lem)
				lastClause = nil
			case "props":
				if cur != nil {
					cur.Props = splitProps(rest)
				} else if lem != nil {
					lem.Props = splitProps(rest)
				}
			case "safetyprops":
				if cur != nil {
					cur.SafetyProps = splitProps(rest)
				}
			case "alsoprops":
				// alsoprops <label> <props…>: the obligation of this function with
				// that label (a schematic clause, say) also counts for these properties
				if cur != nil {
					fs := strings.Fields(rest)
					if len(fs) >= 2 {
						if cur.AlsoProps == nil {
							cur.AlsoProps = map[string][]string{}
						}
						cur.AlsoProps[fs[0]] = append(cur.AlsoProps[fs[0]], fs[1:]...)
					}
				}
			case "mode":
				if cur != nil {
					cur.BV = rest == "bv"
				} else if lem != nil {
					lem.BV = rest == "bv"
				}
			case "forall":
				if lem != nil {
					for _, d := range strings.Split(rest, ",") {
						lem.Forall = append(lem.Forall, strings.TrimSpace(d))
					}
				}
			case "assumes":
				// an assumption about the data structure: assumed on entry, never
				// checked at call sites, listed in the evidence
				props, label, text := parseClauseHead(rest)
				cl := &Clause{Kind: "assumes", Label: label, Props: props, Text: text, Line: where}
				lastClause = cl
				if cur != nil {
					cur.Assumes = append(cur.Assumes, cl)
				}
			case "requires", "ensures":
				props, label, text := parseClauseHead(rest)
				cl := &Clause{Kind: word, Label: label, Props: props, Text: text, Line: where}
				lastClause = cl
				if cur != nil {
					if word == "requires" {
						cur.Requires = append(cur.Requires, cl)
					} else {
						cur.Ensures = append(cur.Ensures, cl)
					}
				} else if lem != nil {
					if word == "requires" {
						lem.Reqs = append(lem.Reqs, cl)
					} else {
						lem.Ens = append(lem.Ens, cl)
					}
				}
			case "loop":
				if cur == nil {
					continue
				}
				nstr, r2, _ := strings.Cut(rest, " ")
				n, err := strconv.Atoi(nstr)
				if err != nil {
					db.errorf("%s: bad loop ordinal %q", where, nstr)
					continue
				}
				kind, r3, _ := strings.Cut(strings.TrimSpace(r2), " ")
				props, label, text := parseClauseHead(strings.TrimSpace(r3))
				cl := &Clause{Kind: kind, Label: label, Props: props, Text: text, Loop: n, Line: where}
				lastClause = cl
				switch kind {
				case "invariant":
					cur.Invariants = append(cur.Invariants, cl)
				case "decreases":
					cur.Decreases = append(cur.Decreases, cl)
				default:
					db.errorf("%s: unknown loop clause %q", where, kind)
				}
			case "atcall":
				if cur == nil {
					continue
				}
				callee, r2, _ := strings.Cut(rest, " ")
				r2 = strings.TrimSpace(strings.TrimPrefix(strings.TrimSpace(r2), "assert"))
				props, label, text := parseClauseHead(strings.TrimSpace(r2))
				cl := &Clause{Kind: "atcall", Label: label, Props: props, Text: text, Callee: callee, Line: where}
				lastClause = cl
				cur.AtCalls = append(cur.AtCalls, cl)
			case "let":
				if cur == nil {
					continue
				}
				name, r2, _ := strings.Cut(rest, "=")
				cl := &Clause{Kind: "let", Name: strings.TrimSpace(name), Text: strings.TrimSpace(r2), Line: where}
				lastClause = cl
				cur.Lets = append(cur.Lets, cl)
			case "modifies":
				if cur != nil {
					cur.HasModifies = true
					if rest != "nothing" {
						for _, m := range strings.Split(rest, ",") {
							cur.Modifies = append(cur.Modifies, strings.TrimSpace(m))
						}
					}
				}
			case "pure":
				if cur != nil {
					cur.Pure = true
				}
			case "trusted":
				if cur != nil {
					cur.Trusted = strings.Trim(rest, `"`)
					if cur.Trusted == "" {
						cur.Trusted = "trusted"
					}
				}
			case "noinline":
				if cur != nil {
					cur.NoInline = true
				}
			case "inline":
				if cur != nil {
					cur.Inline = true
				}
			case "schematic":
				if cur != nil && rest == "off" {
					cur.NoSchematic = true
				}
				if cur != nil && strings.HasPrefix(rest, "noE6failure") {
					cur.NoE6Failure = true
				}
			case "propagates":
				if cur != nil && rest == "errors" {
					cur.PropagatesErrors = true
				}
			case "safety":
				if cur != nil && rest == "off" {
					cur.NoSafety = true
				}
			case "ghost":
				if cur != nil {
					cur.Ghost = true
				}
			case "lift":
				if cur != nil {
					cur.Lift = rest
				}
			default:
				db.errorf("%s: unknown contract directive %q", where, word)
			}
		}
	}
}

// resolveFunc finds "Name", "(*T).Name" or "(T).Name" in pkg.
func resolveFunc(prog *ssa.Program, pkg *packages.Package, ref string) *ssa.Function {
	sp := prog.Package(pkg.Types)
	if sp == nil {
		return nil
	}
	ref = strings.TrimSpace(ref)
	if strings.HasPrefix(ref, "(") {
		end := strings.Index(ref, ")")
		if end < 0 {
			return nil
		}
		recv := ref[1:end]
		name := strings.TrimPrefix(ref[end+1:], ".")
		ptr := strings.HasPrefix(recv, "*")
		recv = strings.TrimPrefix(recv, "*")
		obj := pkg.Types.Scope().Lookup(recv)
		if obj == nil {
			return nil
		}
		var t types.Type = obj.Type()
		if ptr {
			t = types.NewPointer(t)
		}
		sel := prog.MethodSets.MethodSet(t).Lookup(pkg.Types, name)
		if sel == nil {
			return nil
		}
		return prog.MethodValue(sel)
	}
	// closures: Outer$1
	if i := strings.Index(ref, "$"); i >= 0 {
		outer := resolveFunc(prog, pkg, ref[:i])
		if outer == nil {
			return nil
		}
		for _, af := range outer.AnonFuncs {
			if af.Name() == ref || strings.HasSuffix(af.Name(), ref[i:]) {
				return af
			}
		}
		return nil
	}
	return sp.Func(ref)
}

// ---------------------------------------------------------------------------
// compiling clause expressions

var impliesRe = regexp.MustCompile(`==>|<==>`)

// rewriteImplies turns the lowest-precedence infix operators ==> and <==>
// into calls implies(a, b) / iff(a, b), respecting parentheses.
func rewriteImplies(s string) string {
	s = strings.TrimSpace(s)
	// find top-level <==> first (lowest), then ==> (right assoc)
	depth := 0
	for i := 0; i < len(s); i++ {
		switch s[i] {
		case '(', '[', '{':
			depth++
		case ')', ']', '}':
			depth--
		case '"', '\'':
			i = skipQuoted(s, i)
		case '<':
			if depth == 0 && strings.HasPrefix(s[i:], "<==>") {
				return "iff(" + rewriteImplies(s[:i]) + ", " + rewriteImplies(s[i+4:]) + ")"
			}
		}
	}
	depth = 0
	for i := 0; i < len(s); i++ {
		switch s[i] {
		case '(', '[', '{':
			depth++
		case ')', ']', '}':
			depth--
		case '"', '\'':
			i = skipQuoted(s, i)
		case '=':
			if depth == 0 && strings.HasPrefix(s[i:], "==>") {
				return "implies(" + rewriteImplies(s[:i]) + ", " + rewriteImplies(s[i+3:]) + ")"
			}
		}
	}
	// recurse into parenthesised groups
	var b strings.Builder
	for i := 0; i < len(s); i++ {
		if s[i] == '(' {
			d := 1
			j := i + 1
			for ; j < len(s) && d > 0; j++ {
				switch s[j] {
				case '(':
					d++
				case ')':
					d--
				case '"', '\'':
					j = skipQuoted(s, j)
				}
			}
			inner := s[i+1 : j-1]
			if impliesRe.MatchString(inner) {
				// could be a call argument list: split on top-level commas
				parts := splitTopLevel(inner, ',')
				for k := range parts {
					parts[k] = rewriteImplies(parts[k])
				}
				inner = strings.Join(parts, ", ")
			}
			b.WriteByte('(')
			b.WriteString(inner)
			b.WriteByte(')')
			i = j - 1
			continue
		}
		if s[i] == '"' || s[i] == '\'' {
			j := skipQuoted(s, i)
			if j >= len(s) {
				j = len(s) - 1
			}
			b.WriteString(s[i : j+1])
			i = j
			continue
		}
		b.WriteByte(s[i])
	}
	return b.String()
}

func splitTopLevel(s string, sep byte) []string {
	var parts []string
	depth := 0
	last := 0
	for i := 0; i < len(s); i++ {
		switch s[i] {
		case '(', '[', '{':
			depth++
		case ')', ']', '}':
			depth--
		case '"', '\'':
			i = skipQuoted(s, i)
		default:
			if s[i] == sep && depth == 0 {
				parts = append(parts, s[last:i])
				last = i + 1
			}
		}
	}
	return append(parts, s[last:])
}

type nameResolver func(name string) (types.Type, bool)

// compile parses and type-checks a clause expression in the scope of the
// package's contract file, binding extra names through a wrapper function.
func (db *ContractDB) compile(cl *Clause, pkg *packages.Package, resolve nameResolver) error {
	if cl.expr != nil || cl.err != nil {
		return cl.err
	}
	src := rewriteImplies(cl.Text)
	e, err := parser.ParseExpr(src)
	if err != nil {
		cl.err = fmt.Errorf("%s: cannot parse %q: %v", cl.Line, src, err)
		return cl.err
	}
	file := db.files[pkg]
	if file == nil {
		cl.err = fmt.Errorf("%s: package %s has no contract file", cl.Line, pkg.PkgPath)
		return cl.err
	}
	// collect free identifiers
	names := map[string]types.Type{}
	var order []string
	skip := map[*ast.Ident]bool{}
	boundNames := map[string]bool{}
	imports := map[string]bool{}
	for _, im := range file.Imports {
		if im.Name != nil {
			imports[im.Name.Name] = true
		} else {
			p := strings.Trim(im.Path.Value, `"`)
			imports[p[strings.LastIndex(p, "/")+1:]] = true
		}
	}
	ast.Inspect(e, func(n ast.Node) bool {
		switch n := n.(type) {
		case *ast.SelectorExpr:
			skip[n.Sel] = true
			if id, ok := n.X.(*ast.Ident); ok && imports[id.Name] {
				skip[id] = true // package qualifier, even if a local of that name exists
			}
		case *ast.KeyValueExpr:
			if id, ok := n.Key.(*ast.Ident); ok {
				skip[id] = true
			}
		case *ast.FuncLit:
			for _, f := range n.Type.Params.List {
				for _, nm := range f.Names {
					boundNames[nm.Name] = true
				}
			}
		}
		return true
	})
	ast.Inspect(e, func(n ast.Node) bool {
		id, ok := n.(*ast.Ident)
		if !ok || skip[id] || boundNames[id.Name] {
			return true
		}
		if _, seen := names[id.Name]; seen {
			return true
		}
		if t, ok := resolve(id.Name); ok {
			names[id.Name] = t
			order = append(order, id.Name)
		}
		return true
	})
	qual := func(p *types.Package) string {
		if p == pkg.Types {
			return ""
		}
		return p.Name()
	}
	var params []string
	for _, n := range order {
		params = append(params, n+" "+types.TypeString(names[n], qual))
	}
	wrapped := "func(" + strings.Join(params, ", ") + ") { _ = (" + src + ") }"
	we, err := parser.ParseExprFrom(db.fset, "contract:"+cl.Line, wrapped, 0)
	if err != nil {
		cl.err = fmt.Errorf("%s: cannot parse wrapper %q: %v", cl.Line, wrapped, err)
		return cl.err
	}
	info := &types.Info{Types: map[ast.Expr]types.TypeAndValue{}, Uses: map[*ast.Ident]types.Object{}, Defs: map[*ast.Ident]types.Object{}, Selections: map[*ast.SelectorExpr]*types.Selection{}, Instances: map[*ast.Ident]types.Instance{}}
	pos := file.Name.End()
	if len(file.Decls) > 0 {
		pos = file.Decls[len(file.Decls)-1].End()
	}
	if err := types.CheckExpr(db.fset, pkg.Types, pos, we, info); err != nil {
		if strings.Contains(err.Error(), "undefined:") || strings.Contains(err.Error(), "has no field or method") {
			cl.err = fmt.Errorf("%s %s: clause %q names something the code no longer has (%v)", staleMark, cl.Line, truncate(cl.Text, 120), err)
			return cl.err
		}
		cl.err = fmt.Errorf("%s: contract does not type-check: %v  [%s]", cl.Line, err, wrapped)
		return cl.err
	}
	fl := we.(*ast.FuncLit)
	as := fl.Body.List[0].(*ast.AssignStmt)
	cl.expr = as.Rhs[0]
	cl.info = info
	cl.names = names
	return nil
}

func (db *ContractDB) sortedContracts() []*Contract {
	var out []*Contract
	for _, c := range db.byFn {
		out = append(out, c)
	}
	sort.Slice(out, func(i, j int) bool { return out[i].Key < out[j].Key })
	return out
}

// skipQuoted returns the index of the closing quote of the string or rune
// literal that opens at s[i].
func skipQuoted(s string, i int) int {
	q := s[i]
	for i++; i < len(s) && s[i] != q; i++ {
		if s[i] == '\\' {
			i++
		}
	}
	return i
}
