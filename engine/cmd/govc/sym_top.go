package main

import (
	"fmt"
	"go/ast"
	"go/token"
	"go/types"
	"sort"
	"strings"

	"golang.org/x/tools/go/packages"
	"golang.org/x/tools/go/ssa"
)

type pkgRef struct{ pkg *packages.Package }

var pkgIndex = map[*ContractDB]map[*types.Package]*packages.Package{}

func (db *ContractDB) indexPkgs(pkgs []*packages.Package) {
	m := map[*types.Package]*packages.Package{}
	for _, p := range pkgs {
		m[p.Types] = p
	}
	pkgIndex[db] = m
}

func (db *ContractDB) pkgOf(fn *ssa.Function) *pkgRef {
	for f := fn; f != nil; f = f.Parent() {
		var tp *types.Package
		if f.Pkg != nil {
			tp = f.Pkg.Pkg
		} else if f.Object() != nil {
			tp = f.Object().Pkg()
		} else if o := f.Origin(); o != nil && o.Pkg != nil {
			tp = o.Pkg.Pkg
		}
		if tp != nil {
			if p := pkgIndex[db][tp]; p != nil {
				return &pkgRef{p}
			}
		}
	}
	return nil
}

var modClauses = map[string]*Clause{}

func (db *ContractDB) modClause(fn *ssa.Function, text string) *Clause {
	k := funcName(fn) + "|" + text
	if c, ok := modClauses[k]; ok {
		return c
	}
	c := &Clause{Kind: "modifies", Text: text, Line: "modifies of " + funcName(fn)}
	modClauses[k] = c
	return c
}

// ---------------------------------------------------------------------------
// schematic contracts for the executor protocol (DESIGN §4)

var schematicCache = map[*ssa.Function]*Contract{}

func (x *X) schematicFor(fn *ssa.Function) *Contract {
	if c, ok := schematicCache[fn]; ok {
		return c
	}
	var c *Contract
	defer func() { schematicCache[fn] = c }()
	kind := protocolKind(fn.Signature)
	if kind == "" || fn.Pkg == nil || !strings.HasSuffix(fn.Pkg.Pkg.Path(), "/path/exec") {
		return nil
	}
	if ex := x.db.byFn[fn]; ex != nil && ex.NoSchematic {
		return nil
	}
	var recv, found string
	for _, p := range fn.Params {
		switch p.Type().String() {
		case "*github.com/theory/sqljson/path/exec.Executor":
			if recv == "" {
				recv = p.Name()
			}
		case "*github.com/theory/sqljson/path/exec.valueList":
			if found == "" {
				found = p.Name()
			}
		}
	}
	c = &Contract{Key: funcName(fn), Fn: fn, Pkg: x.db.pkgOf(fn).pkg, File: "schematic"}
	add := func(kind, label string, props []string, text string) {
		cl := &Clause{Kind: kind, Label: label, Props: props, Text: text, Line: "schematic:" + label + ":" + funcName(fn)}
		if kind == "requires" {
			c.Requires = append(c.Requires, cl)
		} else {
			c.Ensures = append(c.Ensures, cl)
		}
	}
	failed := "r0 == statusFailed"
	if kind == "pred" {
		failed = "r0 == predUnknown"
	}
	add("ensures", "E1", []string{"C05", "C06", "C20"}, "r1 != nil ==> "+failed)
	add("ensures", "E2", []string{"C05"}, "r1 != nil ==> errIs(r1, ErrExecution) || errIs(r1, ErrInvalid)")
	if kind == "item" {
		add("ensures", "status-range", []string{"C05"}, "r0 == statusOK || r0 == statusNotFound || r0 == statusFailed")
	} else {
		add("ensures", "outcome-range", []string{"C05", "C11"}, "r0 == predFalse || r0 == predTrue || r0 == predUnknown")
	}
	if recv != "" {
		add("ensures", "E3", []string{"C08", "C10"}, "!old("+recv+".verbose) ==> !errIs(r1, ErrVerbose)")
		c.Modifies = append(c.Modifies, recv+".lastGeneratedObjectID")
	}
	if found != "" {
		c.Modifies = append(c.Modifies, found+".list")
		// a result list grows in its own backing array or moves to a fresh
		// one; it never adopts an array that belongs to the document
		add("ensures", "E7-list-owned", []string{"C05", "C09", "C19"}, found+" != nil ==> sameBase("+found+".list, old("+found+".list)) || freshBase("+found+".list)")
	}
	c.HasModifies = true
	return c
}

// ---------------------------------------------------------------------------
// name resolution for clauses of the function under verification

func (x *X) funcScope(fn *ssa.Function) (*types.Scope, *packages.Package) {
	pr := x.db.pkgOf(fn)
	if pr == nil {
		return nil, nil
	}
	switch s := fn.Syntax().(type) {
	case *ast.FuncDecl:
		return pr.pkg.TypesInfo.Scopes[s.Type], pr.pkg
	case *ast.FuncLit:
		return pr.pkg.TypesInfo.Scopes[s.Type], pr.pkg
	}
	return nil, pr.pkg
}

// localResolver resolves clause names against the locals visible at pos.
// bind produces the evaluation bindings in a given state: locals read their
// current cell value.
func (x *X) localResolver(fr *Frame, pos token.Pos, extra map[string]types.Type) (nameResolver, func(st *State, base map[string]SV) map[string]SV) {
	fn := fr.fn
	scope, _ := x.funcScope(fn)
	lookup := func(name string) *types.Var {
		if scope == nil {
			return nil
		}
		at := pos
		if syn := fn.Syntax(); syn == nil || pos < syn.Pos() || pos > syn.End() {
			// the position lies in a helper that was inlined into fn: only what
			// is visible in the whole of fn (parameters, results) can be meant
			at = token.NoPos
		}
		inner := scope.Innermost(at)
		if inner == nil {
			inner = scope
		}
		_, obj := inner.LookupParent(name, at)
		v, ok := obj.(*types.Var)
		if !ok {
			return nil
		}
		// must be declared inside this function
		if fn.Syntax() == nil || v.Pos() < fn.Syntax().Pos() || v.Pos() > fn.Syntax().End() {
			return nil
		}
		return v
	}
	baseRes := x.fnResolver(fn, extra)
	found := map[string]*types.Var{}
	resolve := func(name string) (types.Type, bool) {
		if t, ok := extra[name]; ok {
			return t, true
		}
		if strings.HasPrefix(name, "rangeindex") {
			return types.Typ[types.Int], true
		}
		if len(name) == 2 && name[0] == 'r' && name[1] >= '0' && name[1] <= '9' {
			return baseRes(name)
		}
		if v := lookup(name); v != nil {
			found[name] = v
			return v.Type(), true
		}
		return baseRes(name)
	}
	bind := func(st *State, base map[string]SV) map[string]SV {
		vars := map[string]SV{}
		for k, v := range base {
			vars[k] = v
		}
		// hidden index of the innermost range loop around pos
		{
			var best *ssa.Alloc
			for v := range fr.vals {
				a, ok := v.(*ssa.Alloc)
				if !ok || a.Comment != "rangeindex" {
					continue
				}
				if _, ok := st.mem[fr.vals[a].(*PtrV).key]; !ok {
					continue
				}
				if best == nil || a.Block().Index > best.Block().Index {
					best = a
				}
			}
			if best != nil {
				vars["rangeindex"] = x.load(st, fr.vals[best].(*PtrV))
			}
			// rangeindexN: hidden index of the range loop with ordinal N
			for _, li := range findLoops(fr.fn) {
				var iter *ssa.Alloc
				for _, b := range fr.fn.Blocks {
					if !li.body[b] || iter != nil {
						continue
					}
					for _, in := range b.Instrs {
						s, ok := in.(*ssa.Store)
						if !ok {
							continue
						}
						if a, ok := s.Addr.(*ssa.Alloc); ok && (a.Comment == "rangeindex" || a.Comment == "rangeint.iter") {
							// innermost loop that stores it: prefer the loop whose header dominates the store most closely
							iter = a
							break
						}
					}
				}
				if iter == nil {
					continue
				}
				// an outer loop also "contains" the stores of inner loops: skip if an inner loop owns this alloc
				owned := false
				for _, lj := range findLoops(fr.fn) {
					if lj != li && li.body[lj.header] && lj.header != li.header {
						for _, b := range fr.fn.Blocks {
							if !lj.body[b] {
								continue
							}
							for _, in := range b.Instrs {
								if s, ok := in.(*ssa.Store); ok && s.Addr == ssa.Value(iter) {
									owned = true
								}
							}
						}
					}
				}
				if owned {
					// find the alloc stored in li but not in any inner loop
					iter = nil
					for _, b := range fr.fn.Blocks {
						if !li.body[b] {
							continue
						}
						inner := false
						for _, lj := range findLoops(fr.fn) {
							if lj != li && li.body[lj.header] && lj.header != li.header && lj.body[b] {
								inner = true
							}
						}
						if inner {
							continue
						}
						for _, in := range b.Instrs {
							if s, ok := in.(*ssa.Store); ok {
								if a, ok := s.Addr.(*ssa.Alloc); ok && (a.Comment == "rangeindex" || a.Comment == "rangeint.iter") {
									iter = a
								}
							}
						}
					}
				}
				if iter == nil {
					continue
				}
				if p, ok := fr.vals[iter].(*PtrV); ok {
					if _, ok := st.mem[p.key]; ok {
						vars[fmt.Sprintf("rangeindex%d", li.ordinal)] = x.load(st, p)
					}
				}
			}
		}
		for _, name := range sortedKeys(found) {
			v := found[name]
			if _, ok := vars[name]; ok {
				continue
			}
			if cell := fr.cellAt(x, v); cell != nil {
				if _, ok := st.mem[cell.key]; ok || cell.kind != pkLocal {
					val := x.load(st, cell)
					if c, ok := x.closures[val.S]; ok {
						vars[name] = c
					} else {
						vars[name] = val
					}
					continue
				}
			}
			// fall back to the entry value of a parameter
			for i, p := range fn.Params {
				if p.Name() == name && i < len(fr.params) {
					vars[name] = fr.params[i]
				}
			}
		}
		return vars
	}
	return resolve, bind
}

// cellAt finds the memory cell of the local variable declared at pos.
func (fr *Frame) cellAt(x *X, v *types.Var) *PtrV {
	var best *PtrV
	bestName := ""
	for val, sv := range fr.vals {
		a, ok := val.(*ssa.Alloc)
		if !ok || a.Pos() != v.Pos() {
			continue
		}
		// the implicit variables of a type switch share one position: match the type
		el := a.Type().Underlying().(*types.Pointer).Elem()
		if !types.Identical(el, v.Type()) {
			continue
		}
		if p, ok := sv.(*PtrV); ok {
			if best == nil || a.Name() < bestName {
				best, bestName = p, a.Name()
			}
		}
	}
	return best
}

func (x *X) entryVars(fr *Frame) map[string]SV {
	vars := map[string]SV{}
	for i, p := range fr.fn.Params {
		if i < len(fr.params) {
			vars[p.Name()] = fr.params[i]
		}
	}
	return vars
}

// ---------------------------------------------------------------------------
// loops

type loopRT struct {
	li        *loopInfo
	pre       *State
	head      *State
	variants  []Term
	invs      []*Clause
	backEdges int
}

var loopRTs = map[*Frame]map[*loopInfo]*loopRT{}

var autoInvCache = map[string]*Clause{}

func (x *X) loopClauses(fr *Frame, li *loopInfo) (invs, decs []*Clause) {
	if fr.parent != nil {
		return
	}
	// declared type invariants of pointer parameters hold at every loop head
	for _, p := range fr.fn.Params {
		for _, inv := range x.invariantsOf(p) {
			key := fmt.Sprintf("%s|%d|%s|%s", funcName(fr.fn), li.ordinal, p.Name(), inv.label)
			cl := autoInvCache[key]
			if cl == nil {
				cl = &Clause{Kind: "invariant", Label: "inv-" + inv.label + "-" + p.Name(), Props: inv.props, Loop: li.ordinal,
					Text: replaceIdent(inv.text, "self", p.Name()), Line: "typeinv-loop:" + inv.line + ":" + key}
				autoInvCache[key] = cl
			}
			invs = append(invs, cl)
		}
	}
	// a local that the loop only counts upwards, under a guard that bounds it
	// from above, never drops below the value it had at loop entry
	for _, name := range upCounters(fr.fn, li) {
		key := fmt.Sprintf("%s|%d|counter|%s", funcName(fr.fn), li.ordinal, name)
		cl := autoInvCache[key]
		if cl == nil {
			cl = &Clause{Kind: "invariant", Label: "auto-counter-" + name, Loop: li.ordinal,
				Text: name + " >= loopEntry(" + name + ")", Line: "auto-counter:" + key}
			autoInvCache[key] = cl
		}
		invs = append(invs, cl)
	}
	if x.topC == nil {
		return
	}
	for _, cl := range x.topC.Invariants {
		if cl.Loop == li.ordinal {
			invs = append(invs, cl)
		}
	}
	for _, cl := range x.topC.Decreases {
		if cl.Loop == li.ordinal {
			decs = append(decs, cl)
		}
	}
	return
}

func loopAnchor(li *loopInfo) token.Pos {
	best := token.Pos(0)
	for b := range li.body {
		for _, in := range b.Instrs {
			if _, ok := in.(*ssa.DebugRef); ok {
				continue
			}
			if p := in.Pos(); p.IsValid() && p > best {
				best = p
			}
		}
	}
	return best
}

func (x *X) evalLoopClause(fr *Frame, li *loopInfo, cl *Clause, st *State, pre *State) (Term, bool) {
	resolve, bind := x.localResolver(fr, loopAnchor(li), nil)
	// compile first so that `found` names are known, then bind
	pkg := x.db.pkgOf(fr.fn)
	if err := x.db.compile(cl, pkg.pkg, resolve); err != nil {
		x.db.errorf("%v", err)
		return tTrue, false
	}
	// names were recorded by resolve during compile; on later evaluations the
	// clause is already compiled, so re-run resolve over its names
	for n := range cl.names {
		resolve(n)
	}
	env := &specEnv{x: x, st: st, old: x.entry, fr: fr}
	env.vars = bind(st, nil)
	env.ovars = x.entryVars(fr)
	if pre != nil {
		env.loopPre = pre
		env.loopVars = bind(pre, nil)
	}
	x.pure++
	defer func() { x.pure-- }()
	return x.evalClause(cl, fr.fn, env, resolve)
}

func (x *X) enterLoop(fr *Frame, li *loopInfo, cur *State) *State {
	invs, decs := x.loopClauses(fr, li)
	rt := &loopRT{li: li, pre: cur.clone(), invs: invs}
	if loopRTs[fr] == nil {
		loopRTs[fr] = map[*loopInfo]*loopRT{}
	}
	loopRTs[fr][li] = rt
	// ghost cells of in-loop defers must exist before they are havoced
	x.registerLoopDeferGhosts(fr, li)
	// initiation
	for _, cl := range invs {
		t, ok := x.evalLoopClause(fr, li, cl, cur, cur)
		if ok {
			x.obligation(cur, "inv-init", fmt.Sprintf("loop%d:%s", li.ordinal, clauseLabel(cl)), t, token.NoPos, cl.Text, cl.Props)
		}
	}
	// havoc what the loop may modify
	x.vc.comment(fmt.Sprintf("loop %d of %s: havoc", li.ordinal, fr.name))
	head := cur.clone()
	x.havocLoop(fr, li, head, cur)
	// assume invariants at the head of an arbitrary iteration
	for _, cl := range invs {
		t, ok := x.evalLoopClause(fr, li, cl, head, cur)
		if ok {
			x.vc.assume(mkImplies(head.reach, t))
		}
	}
	for _, cl := range decs {
		t, ok := x.evalLoopClause(fr, li, cl, head, cur)
		if ok {
			rt.variants = append(rt.variants, x.vc.define("variant", t))
		}
	}
	rt.head = head.clone()
	return head
}

func clauseLabel(cl *Clause) string {
	if cl.Label != "" {
		return cl.Label
	}
	return sanitize(truncate(cl.Text, 30))
}

func (x *X) backEdge(fr *Frame, li *loopInfo, st *State) {
	rt := loopRTs[fr][li]
	if rt == nil {
		return
	}
	rt.backEdges++
	suffix := ""
	if rt.backEdges > 1 {
		suffix = fmt.Sprintf("#%d", rt.backEdges)
	}
	for _, cl := range rt.invs {
		t, ok := x.evalLoopClause(fr, li, cl, st, rt.pre)
		if ok {
			x.obligation(st, "inv-preserve", fmt.Sprintf("loop%d:%s%s", li.ordinal, clauseLabel(cl), suffix), t, token.NoPos, cl.Text, cl.Props)
		}
	}
	_, decs := x.loopClauses(fr, li)
	for i, cl := range decs {
		if i >= len(rt.variants) {
			break
		}
		t, ok := x.evalLoopClause(fr, li, cl, st, rt.pre)
		if ok {
			v0 := rt.variants[i]
			goal := mkAnd(x.ile(x.ic(0), v0), x.ilt(t, v0))
			x.obligation(st, "decreases", fmt.Sprintf("loop%d", li.ordinal), goal, token.NoPos, cl.Text, cl.Props)
		}
	}
}

// havocLoop replaces everything the loop body may write by arbitrary values.
func (x *X) havocLoop(fr *Frame, li *loopInfo, head, pre *State) {
	eff := x.loopEffects(fr, li)
	// local cells
	for _, a := range eff.cells {
		p, ok := fr.vals[a].(*PtrV)
		if !ok || p.kind != pkLocal {
			continue
		}
		if _, ok := pre.mem[p.key]; !ok {
			continue
		}
		el := a.Type().Underlying().(*types.Pointer).Elem()
		nv := x.vc.fresh("lv_"+a.Comment, x.enc.sortOf(el))
		head.mem[p.key] = nv
	}
	// range iterators positioned inside the loop
	for _, r := range eff.ranges {
		key := fmt.Sprintf("L%d:range:%s", fr.id, r.Name())
		if _, ok := x.keys[key]; ok {
			nv := x.vc.fresh("rng_pos", x.enc.isz())
			x.vc.assume(x.ile(x.ic(0), nv))
			head.mem[key] = nv
		}
	}
	// ghost cells: call traces of the callees called in the loop, pending
	// error/failure if a protocol callee is called
	if eff.anyCall {
		if eff.proto {
			for _, k := range []string{x.pendingErrKey(), x.pendingFailedKey()} {
				head.mem[k] = x.vc.fresh("g", x.keys[k].sort)
			}
		}
		// trace cells of callees first called inside the loop must exist before the havoc
		for _, cn := range sortedKeys(eff.calleeFns) {
			f := eff.calleeFns[cn]
			if x.db.byFn[f] == nil && x.schematicFor(f) == nil {
				continue
			}
			x.callCountKey(cn)
			for _, p := range f.Params {
				if p.Name() == "_" || p.Name() == "" {
					continue
				}
				x.callTraceKey(cn, "arg", p.Name(), x.enc.sortOf(p.Type()), p.Type())
			}
			for i := 0; i < f.Signature.Results().Len(); i++ {
				rt := f.Signature.Results().At(i).Type()
				x.callTraceKey(cn, "ret", fmt.Sprint(i), x.enc.sortOf(rt), rt)
				x.callTraceKey(cn, "first", fmt.Sprint(i), x.enc.sortOf(rt), rt)
			}
		}
		for _, k := range sortedKeys(x.keys) {
			if !strings.HasPrefix(k, "calls:") {
				continue
			}
			hit := false
			for cn := range eff.callees {
				if strings.HasPrefix(k, "calls:"+cn+":") {
					hit = true
				}
			}
			if !hit {
				continue
			}
			head.mem[k] = x.vc.fresh("g", x.keys[k].sort)
			if strings.HasSuffix(k, ":count") {
				x.vc.assume(x.ile(x.get(pre, k), head.mem[k]))
			}
			if i := strings.Index(k, ":first:"); i > 0 {
				// the first-call trace is written once: a loop cannot change
				// it when the callee had been called before the loop
				ck := k[:i] + ":count"
				if _, ok := x.keys[ck]; ok {
					head.mem[k] = mkIte(x.ile(x.ic(1), x.get(pre, ck)), x.get(pre, k), head.mem[k])
				}
			}
		}
		dk := x.ctxDoneKey()
		nd := x.vc.fresh("ctxDone", SBool)
		x.vc.assume(mkImplies(x.get(pre, dk), nd))
		head.mem[dk] = nd
		ak := x.allocKey()
		na := x.vc.fresh("alloc", SInt)
		x.vc.assume(app(SBool, "<=", x.get(pre, ak), na))
		head.mem[ak] = na
	}
	if eff.allocs {
		ak := x.allocKey()
		na := x.vc.fresh("alloc", SInt)
		x.vc.assume(app(SBool, "<=", x.get(pre, ak), na))
		head.mem[ak] = na
	}
	for _, k := range x.ghostDeferKeys {
		if strings.HasPrefix(k, fmt.Sprintf("ghost:defer%d:", fr.id)) {
			head.mem[k] = x.vc.fresh("gd", x.keys[k].sort)
		}
	}
	// heap effects
	for _, h := range eff.heap {
		x.havocHeapEffect(fr, li, head, pre, h)
	}
	// refresh well-formedness of havoced locals
	for _, a := range eff.cells {
		p, ok := fr.vals[a].(*PtrV)
		if !ok || p.kind != pkLocal {
			continue
		}
		if v, ok := head.mem[p.key]; ok {
			el := a.Type().Underlying().(*types.Pointer).Elem()
			x.assumeWF(head, v, el)
			if a.Comment == "rangeindex" {
				// the hidden index of a range loop starts at -1 and is only incremented
				x.vc.assume(x.ile(x.ic(-1), v))
				// ... and stays below the length it is compared with at the head
				if ifi, ok := li.header.Instrs[len(li.header.Instrs)-1].(*ssa.If); ok {
					if cmp, ok := ifi.Cond.(*ssa.BinOp); ok && cmp.Op == token.LSS {
						if lv, ok := fr.vals[cmp.Y]; ok {
							if lt, ok := lv.(Term); ok {
								x.vc.assume(x.ilt(v, lt))
							}
						}
					}
				}
			}
		}
	}
}

func (x *X) registerLoopDeferGhosts(fr *Frame, li *loopInfo) {
	for _, b := range fr.fn.Blocks {
		if !li.body[b] {
			continue
		}
		for _, in := range b.Instrs {
			d, ok := in.(*ssa.Defer)
			if !ok {
				continue
			}
			for _, fk := range deferTargets(d) {
				key := x.fieldKey(fk.typ, fk.field)
				x.registerDeferGhost(fr, key, x.enc.sortOf(fk.typ.Underlying().(*types.Struct).Field(fk.field).Type()))
			}
		}
	}
}

type fieldRef struct {
	typ   types.Type
	field int
}

// deferTargets statically finds the heap fields a deferred restore closure writes.
func deferTargets(d *ssa.Defer) []fieldRef {
	var clos *ssa.Function
	switch v := d.Call.Value.(type) {
	case *ssa.MakeClosure:
		clos = v.Fn.(*ssa.Function)
	case *ssa.Function:
		clos = v
	case *ssa.Call:
		if callee, ok := v.Call.Value.(*ssa.Function); ok {
			for _, b := range callee.Blocks {
				for _, in := range b.Instrs {
					if mc, ok := in.(*ssa.MakeClosure); ok && clos == nil {
						clos = mc.Fn.(*ssa.Function)
					}
				}
			}
		}
	}
	if clos == nil {
		return nil
	}
	var out []fieldRef
	for _, b := range clos.Blocks {
		for _, in := range b.Instrs {
			s, ok := in.(*ssa.Store)
			if !ok {
				continue
			}
			fa, ok := s.Addr.(*ssa.FieldAddr)
			if !ok {
				continue
			}
			for {
				inner, ok := fa.X.(*ssa.FieldAddr)
				if !ok {
					break
				}
				fa = inner
			}
			pt, ok := fa.X.Type().Underlying().(*types.Pointer)
			if !ok {
				continue
			}
			out = append(out, fieldRef{pt.Elem(), fa.Field})
		}
	}
	return out
}

// ---------------------------------------------------------------------------
// top level: verify one function against its contract

type funcResult struct {
	Name        string
	Obligations []*Obligation
	Unsupported []string
	Assumptions []string
	Inlined     []string
	Havoced     []string
	Errors      []string
	Stale       []string // clauses of this function's contract that were left out as stale
	Contract    *Contract
	Instrs      int
}

func verifyFunction(prog *ssa.Program, db *ContractDB, fn *ssa.Function, c *Contract, module string, sent *sentinels) (res *funcResult) {
	name := funcName(fn)
	res = &funcResult{Name: name, Contract: c}
	vc := newVC(name)
	bv := c != nil && c.BV
	x := &X{prog: prog, vc: vc, enc: newEnc(vc, bv, module), db: db, top: fn, topC: c,
		keys: map[string]keyInfo{}, closures: map[string]*ClosV{}, funcIDs: map[*ssa.Function]Term{},
		module: module, inlined: map[string]bool{}, havoced: map[string]bool{}, sentinel: sent,
		callSeq: map[string]int{}, nilChecked: map[string]bool{}}
	if c != nil {
		x.props = c.Props
	}
	errBefore := len(db.errors)
	staleBefore := len(db.stale)
	defer func() {
		res.Stale = append(res.Stale, db.stale[staleBefore:]...)
		if r := recover(); r != nil {
			res.Errors = append(res.Errors, fmt.Sprintf("engine panic in %s: %v", name, r))
		}
		res.Obligations = vc.obls
		res.Unsupported = x.enc.unsup
		for a := range x.enc.assumps {
			res.Assumptions = append(res.Assumptions, a)
		}
		sort.Strings(res.Assumptions)
		for k := range x.inlined {
			res.Inlined = append(res.Inlined, k)
		}
		sort.Strings(res.Inlined)
		for k := range x.havoced {
			res.Havoced = append(res.Havoced, k)
		}
		res.Errors = append(res.Errors, db.errors[errBefore:]...)
		res.Instrs = x.stats.instrs
		delete(entryDefaults, x)
		delete(safetySeq, x)
	}()
	sent.declare(x)
	st := &State{mem: map[string]Term{}, reach: tTrue}
	fr := x.newFrame(fn, nil)
	// symbolic inputs
	x.allocKey()
	x.get(st, x.allocKey())
	for _, p := range fn.Params {
		v := x.vc.fresh("p_"+p.Name(), x.enc.sortOf(p.Type()))
		x.assumeWF(st, v, p.Type())
		fr.params = append(fr.params, v)
		vc.watch = append(vc.watch, v)
	}
	for _, fv := range fn.FreeVars {
		v := x.vc.fresh("fv_"+fv.Name(), x.enc.sortOf(fv.Type()))
		x.assumeWF(st, v, fv.Type())
		if _, ok := fv.Type().Underlying().(*types.Pointer); ok {
			x.vc.assume(mkNot(mkEq(v, intLit(0))))
		}
		fr.free = append(fr.free, v)
	}
	x.entry = st.clone()
	sch := x.schematicFor(fn)
	// preconditions are assumed
	vars := x.entryVars(fr)
	resolve := x.fnResolver(fn, nil)
	var reqs []Term
	for _, cc := range []*Contract{c, sch, x.defaultRequires(fn)} {
		if cc == nil {
			continue
		}
		for _, cl := range cc.Requires {
			env := &specEnv{x: x, st: st, old: nil, vars: vars, fr: fr}
			x.pure++
			x.recordForalls = true
			t, ok := x.evalClause(cl, fn, env, resolve)
			x.recordForalls = false
			x.pure--
			if ok {
				x.vc.assume(t)
				reqs = append(reqs, t)
			}
		}
	}
	if c != nil {
		for _, cl := range c.Assumes {
			env := &specEnv{x: x, st: st, old: nil, vars: vars, fr: fr}
			x.pure++
			t, ok := x.evalClause(cl, fn, env, resolve)
			x.pure--
			if ok {
				x.vc.assume(t)
				x.enc.assumption("ASSUMED data-structure invariant at entry of " + name + " (" + cl.Label + "): " + cl.Text)
			}
		}
	}
	// object invariants of parameters (non-owner code only; objinv.go)
	for i, p := range fn.Params {
		x.objInvAssume(fr, st, fr.params[i], p.Type(), -1)
	}
	x.objInvStaticChecks(fn)
	// vacuity: the precondition must be satisfiable
	x.vc.oblige(&Obligation{Name: name + "/cover:requires", Kind: "cover", Func: name, Goal: tTrue, ExpectSat: true, Props: x.props, Text: "requires satisfiable"})
	x.entry = st.clone()
	if c != nil && c.Trusted != "" {
		x.enc.assumption("TRUSTED (body not verified): " + name + ": " + c.Trusted)
		return res
	}
	rets, out := x.run(fr, st)
	// reachability of the exit (guards against contradictory callee contracts)
	if !bv {
		// (in bit-vector mode the solvers do not produce FP+BV+array models within the
		// time limit; those functions keep the cover of their precondition only)
		x.vc.oblige(&Obligation{Name: name + "/cover:exit", Kind: "cover", Func: name, Goal: out.reach, ExpectSat: true, Props: x.props, Text: "some return is reachable"})
	}
	// postconditions
	evars := x.entryVars(fr)
	pvars := x.entryVars(fr)
	x.resultVars(fn, pvars, rets)
	endPos := token.NoPos
	if fn.Syntax() != nil {
		endPos = fn.Syntax().End() - 1
	}
	for _, cc := range []*Contract{c, sch, x.defaultEnsures(fn)} {
		if cc == nil {
			continue
		}
		for _, cl := range cc.Ensures {
			resolveL, bind := x.localResolver(fr, endPos, nil)
			pkg := x.db.pkgOf(fn)
			if err := x.db.compile(cl, pkg.pkg, x.fnResolverThen(fn, resolveL)); err != nil {
				x.db.errorf("%v", err)
				continue
			}
			for n := range cl.names {
				resolveL(n)
			}
			env := &specEnv{x: x, st: out, old: x.entry, fr: fr}
			env.vars = bind(out, pvars)
			env.ovars = evars
			x.pure++
			t, ok := x.evalClause(cl, fn, env, resolveL)
			x.pure--
			if !ok {
				continue
			}
			props := cl.Props
			if props == nil {
				props = x.props
			}
			x.pure = 0
			x.obligation(out, "post", clauseLabel(cl), t, token.NoPos, cl.Text, props)
		}
	}
	// E6: nothing is dropped
	if kind := protocolKind(fn.Signature); kind != "" && sch != nil && len(rets) == 2 {
		pe := x.get(out, x.pendingErrKey())
		e := rets[1].(Term)
		x.obligation(out, "post", "E6-error-propagated", mkImplies(mkNot(mkEq(pe, intLit(0))), mkEq(e, pe)), token.NoPos,
			"an error returned by an executor callee is returned unchanged", []string{"C05", "C08", "C20"})
		if kind == "item" && (c == nil || !c.NoE6Failure) {
			pf := x.get(out, x.pendingFailedKey())
			x.obligation(out, "post", "E6-failure-propagated", mkImplies(pf, mkEq(rets[0].(Term), x.enc.intConst(2, types.Typ[types.Uint8]))), token.NoPos,
				"a failed status of an executor callee leaves the function as failed", []string{"C05", "C07", "C08", "C10", "C11", "C20"})
		}
	}
	if c != nil && c.PropagatesErrors && protocolKind(fn.Signature) == "" {
		if n := fn.Signature.Results().Len(); n > 0 && n == len(rets) && isErrorType(fn.Signature.Results().At(n-1).Type()) {
			pe := x.get(out, x.pendingErrKey())
			x.obligation(out, "post", "error-propagated", mkImplies(mkNot(mkEq(pe, intLit(0))), mkEq(rets[n-1].(Term), pe)), token.NoPos,
				"the first error a callee returns is the error the function returns", x.props)
		}
	}
	// frame
	x.frameObligations(fr, out, c, sch)
	return res
}

func (x *X) fnResolverThen(fn *ssa.Function, first nameResolver) nameResolver {
	return first
}

// frameObligations: every heap array and global that differs from its entry
// value must differ only at locations named by modifies.
func (x *X) frameObligations(fr *Frame, out *State, c, sch *Contract) {
	var mods []string
	if c != nil {
		mods = append(mods, c.Modifies...)
	}
	if sch != nil {
		mods = append(mods, sch.Modifies...)
	}
	if c != nil && c.Swept {
		// uncontracted (swept) functions may write their own receiver and
		// append to result lists they are given
		for i, p := range fr.fn.Params {
			pt, ok := p.Type().Underlying().(*types.Pointer)
			if !ok || p.Name() == "" {
				continue
			}
			n, ok := pt.Elem().(*types.Named)
			if !ok || !x.enc.inModule(n) {
				continue
			}
			if i == 0 && fr.fn.Signature.Recv() != nil {
				mods = append(mods, p.Name()+".*")
			} else if n.Obj().Name() == "valueList" {
				mods = append(mods, p.Name()+".list")
			}
		}
	}
	// "elems(e)": the elements of the slice value e (at entry) may change; only
	// meaningful for functions that are never called from verified code (the
	// extracted grammar actions), so it is honoured here and nowhere else
	type sliceMod struct {
		base Term
		key  string
	}
	var sliceMods []sliceMod
	var plain []string
	for _, m := range mods {
		if strings.HasPrefix(m, "elems(") && strings.HasSuffix(m, ")") {
			cl := x.db.modClause(fr.fn, m[6:len(m)-1])
			pkg := x.db.pkgOf(fr.fn)
			if err := x.db.compile(cl, pkg.pkg, x.fnResolver(fr.fn, nil)); err != nil {
				x.db.errorf("%v", err)
				continue
			}
			env := &specEnv{x: x, st: x.entry, vars: x.entryVars(fr), fr: fr, info: cl.info, where: cl.Line}
			x.pure++
			v := env.evalTerm(cl.expr)
			x.pure--
			if sl, ok := env.typeOf(cl.expr).Underlying().(*types.Slice); ok {
				sliceMods = append(sliceMods, sliceMod{app(SInt, "sbase", v), x.elemsKey(x.enc.sortOf(sl.Elem()))})
			}
			continue
		}
		plain = append(plain, m)
	}
	mods = plain
	targets := x.modifiesTargets(fr, x.entry, fr.fn, mods, x.entryVars(fr))
	alloc0 := x.get(x.entry, x.allocKey())
	fprops := []string{"C05", "C09", "C19"}
	if c != nil && len(c.SafetyProps) > 0 {
		fprops = append(fprops, c.SafetyProps...)
	}
	for _, k := range sortedKeys(out.mem) {
		fin := out.mem[k]
		switch {
		case strings.HasPrefix(k, "H:"), strings.HasPrefix(k, "Box:"), strings.HasPrefix(k, "Elems:"), strings.HasPrefix(k, "MapHas:"), strings.HasPrefix(k, "MapGet:"), strings.HasPrefix(k, "MapLen:"):
			init := x.defaultOf(k)
			if fin.S == init.S {
				continue
			}
			r := x.vc.fresh("frame_ref", SInt)
			var except []Term
			for _, p := range targets {
				switch {
				case strings.HasPrefix(k, "H:") && p.kind == pkObj && len(p.path) > 0 && x.fieldKey(p.typ, p.path[0]) == k:
					except = append(except, mkNot(mkEq(r, p.ref)))
				case strings.HasPrefix(k, "Box:") && p.kind == pkBox && p.key == k:
					except = append(except, mkNot(mkEq(r, p.ref)))
				case strings.HasPrefix(k, "Elems:"):
					if sl, ok := p.pointee().Underlying().(*types.Slice); ok && x.elemsKey(x.enc.sortOf(sl.Elem())) == k {
						old := x.load(x.entry, p)
						except = append(except, mkNot(mkEq(r, app(SInt, "sbase", old))))
					}
				}
			}
			for _, sm := range sliceMods {
				if sm.key == k {
					except = append(except, mkNot(mkEq(r, sm.base)))
				}
			}
			ki := x.keys[k]
			elem := Sort(strings.TrimSuffix(strings.TrimPrefix(string(ki.sort), "(Array Int "), ")"))
			cond := mkAnd(append([]Term{app(SBool, "<", intLit(0), r), app(SBool, "<", r, alloc0)}, except...)...)
			goal := mkImplies(cond, mkEq(mkSelect(fin, r, elem), mkSelect(init, r, elem)))
			kp := fprops
			if extra := x.db.frameProps[k]; len(extra) > 0 {
				kp = append(append([]string{}, fprops...), extra...)
			}
			x.obligation(out, "frame", shortKey(k), goal, token.NoPos, "only locations named in modifies may change: "+k, kp)
		case strings.HasPrefix(k, "G:"):
			init := x.defaultOf(k)
			if fin.S == init.S {
				continue
			}
			allowed := false
			for _, p := range targets {
				if p.kind == pkGlobal && p.key == k {
					allowed = true
				}
			}
			if allowed {
				continue
			}
			x.obligation(out, "frame", shortKey(k), mkEq(fin, init), token.NoPos, "package variable must not change: "+k, fprops)
		}
	}
}

func shortKey(k string) string {
	k = strings.ReplaceAll(k, "github.com/theory/sqljson/path/", "")
	return sanitize(k)
}

// defaultRequires: type invariants of inputs that every function of the
// module may rely on and every contracted call site must establish: method
// receivers and parameters that point to AST nodes, datetime values, the
// lexer or the Executor are non-nil.
var defaultReqCache = map[*ssa.Function]*Contract{}

func (x *X) defaultRequires(fn *ssa.Function) *Contract {
	if c, ok := defaultReqCache[fn]; ok {
		return c
	}
	c := &Contract{Key: funcName(fn), Fn: fn, File: "default"}
	defaultReqCache[fn] = c
	for i, p := range fn.Params {
		pt, ok := p.Type().Underlying().(*types.Pointer)
		if !ok || p.Name() == "" || p.Name() == "_" {
			continue
		}
		n, ok := pt.Elem().(*types.Named)
		if !ok || !x.enc.inModule(n) {
			continue
		}
		if _, isStruct := n.Underlying().(*types.Struct); !isStruct {
			continue
		}
		isRecv := i == 0 && fn.Signature.Recv() != nil
		if n.Obj().Name() == "valueList" && !isRecv {
			continue
		}
		c.Requires = append(c.Requires, &Clause{Kind: "requires", Label: "nonnil-" + p.Name(), Text: p.Name() + " != nil", Line: "default:nonnil:" + funcName(fn) + ":" + p.Name()})
	}
	// declared type invariants of parameter types
	for _, p := range fn.Params {
		for _, inv := range x.invariantsOf(p) {
			c.Requires = append(c.Requires, &Clause{Kind: "requires", Label: "inv-" + inv.label + "-" + p.Name(), Props: inv.props,
				Text: replaceIdent(inv.text, "self", p.Name()), Line: "typeinv:" + inv.line + ":" + funcName(fn) + ":" + p.Name()})
		}
	}
	// Executor invariant: the path is set
	for _, p := range fn.Params {
		if p.Type().String() == "*github.com/theory/sqljson/path/exec.Executor" && p.Name() != "" {
			c.Requires = append(c.Requires, &Clause{Kind: "requires", Label: "exec-path", Text: p.Name() + ".path != nil", Line: "default:execpath:" + funcName(fn)})
			c.Requires = append(c.Requires, &Clause{Kind: "requires", Label: "exec-base-addr", Text: p.Name() + ".baseObject.addr <= 9223372036854775807", Line: "default:execbase:" + funcName(fn)})
		}
	}
	return c
}

func (x *X) invariantsOf(p *ssa.Parameter) []typeInv {
	pt, ok := p.Type().Underlying().(*types.Pointer)
	if !ok || p.Name() == "" || p.Name() == "_" {
		return nil
	}
	n, ok := pt.Elem().(*types.Named)
	if !ok || n.Obj().Pkg() == nil {
		return nil
	}
	return x.db.typeInvs[n.Obj().Pkg().Path()+"."+n.Obj().Name()]
}

// defaultEnsures: a method re-establishes the declared invariants of its
// pointer parameters (assumed by callers after the call).
var defaultEnsCache = map[*ssa.Function]*Contract{}

func (x *X) defaultEnsures(fn *ssa.Function) *Contract {
	if c, ok := defaultEnsCache[fn]; ok {
		return c
	}
	c := &Contract{Key: funcName(fn), Fn: fn, File: "default"}
	defaultEnsCache[fn] = c
	for _, p := range fn.Params {
		for _, inv := range x.invariantsOf(p) {
			c.Ensures = append(c.Ensures, &Clause{Kind: "ensures", Label: "inv-" + inv.label + "-" + p.Name(), Props: inv.props,
				Text: replaceIdent(inv.text, "self", p.Name()), Line: "typeinv-ens:" + inv.line + ":" + funcName(fn) + ":" + p.Name()})
		}
	}
	return c
}

func replaceIdent(s, from, to string) string {
	var b strings.Builder
	isId := func(c byte) bool {
		return c == '_' || c >= 'a' && c <= 'z' || c >= 'A' && c <= 'Z' || c >= '0' && c <= '9'
	}
	for i := 0; i < len(s); {
		if strings.HasPrefix(s[i:], from) && (i == 0 || !isId(s[i-1]) && s[i-1] != '.') && (i+len(from) == len(s) || !isId(s[i+len(from)])) {
			b.WriteString(to)
			i += len(from)
			continue
		}
		b.WriteByte(s[i])
		i++
	}
	return b.String()
}

// upCounters finds the named integer locals of fn that loop li only ever
// increases by a positive constant and that the loop guard bounds from above
// (i < e, i <= e): for these "i >= value at loop entry" is an invariant that
// needs no annotation.
func upCounters(fn *ssa.Function, li *loopInfo) []string {
	var out []string
	for _, b := range fn.Blocks {
		for _, in := range b.Instrs {
			a, ok := in.(*ssa.Alloc)
			if !ok || a.Heap || a.Comment == "" || strings.HasPrefix(a.Comment, "range") {
				continue
			}
			bt, ok := a.Type().Underlying().(*types.Pointer).Elem().Underlying().(*types.Basic)
			if !ok || bt.Info()&types.IsInteger == 0 || bt.Info()&types.IsUnsigned != 0 {
				continue
			}
			stores, good := 0, true
			for lb := range li.body {
				for _, lin := range lb.Instrs {
					st, ok := lin.(*ssa.Store)
					if !ok || st.Addr != ssa.Value(a) {
						continue
					}
					stores++
					bo, ok := st.Val.(*ssa.BinOp)
					if !ok || bo.Op != token.ADD {
						good = false
						continue
					}
					ld, ok1 := bo.X.(*ssa.UnOp)
					c, ok2 := bo.Y.(*ssa.Const)
					if !ok1 || !ok2 || ld.Op != token.MUL || ld.X != ssa.Value(a) || c.Value == nil || c.Int64() <= 0 || c.Int64() > 1<<20 {
						good = false
					}
				}
			}
			if stores == 0 || !good {
				continue
			}
			// the guard at the loop header: i < e or i <= e on a fresh load of i
			guarded := false
			var visit func(v ssa.Value, depth int)
			visit = func(v ssa.Value, depth int) {
				if depth > 4 || v == nil {
					return
				}
				if bo, ok := v.(*ssa.BinOp); ok {
					if bo.Op == token.LSS || bo.Op == token.LEQ {
						if ld, ok := bo.X.(*ssa.UnOp); ok && ld.Op == token.MUL && ld.X == ssa.Value(a) {
							guarded = true
						}
					}
					if bo.Op == token.GTR || bo.Op == token.GEQ {
						if ld, ok := bo.Y.(*ssa.UnOp); ok && ld.Op == token.MUL && ld.X == ssa.Value(a) {
							guarded = true
						}
					}
				}
			}
			for lb := range li.body {
				if len(lb.Instrs) == 0 {
					continue
				}
				if ifi, ok := lb.Instrs[len(lb.Instrs)-1].(*ssa.If); ok {
					// only guards one of whose branches leaves the loop
					leaves := false
					for _, sc := range lb.Succs {
						if !li.body[sc] {
							leaves = true
						}
					}
					if leaves || lb == li.header {
						visit(ifi.Cond, 0)
					}
				}
			}
			if guarded {
				out = append(out, a.Comment)
			}
		}
	}
	sort.Strings(out)
	return out
}
