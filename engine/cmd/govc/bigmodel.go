package main

// An exact model of the part of math/big that exec.roundDecimal uses.
//
// A *big.Rat denotes a rational, a *big.Int an integer; both are kept in ghost
// heap arrays indexed by the pointer (`ghost:bigrat : Int -> Real`,
// `ghost:bigint : Int -> Int`), so aliasing (z.Mul(z, y), Abs(scaled) chained
// with Add) is the array semantics. Each method sets its receiver's entry to
// the mathematical result and returns the receiver, as math/big documents.
// Left uninterpreted, and shared with the ghost functions of the contract
// language so that code and specification speak of the same values:
//
//	rat_text_ok(s), rat_of_text(s)   what (*Rat).SetString accepts and denotes
//	bigpow(x, y)                     x**y of (*Int).Exp with a nil modulus;
//	                                 assumed: x >= 1 and y >= 0 imply bigpow >= 1
//	rat_num(q), rat_den(q)           numerator and denominator of q in lowest
//	                                 terms; assumed: rat_den(q) > 0, the floor of
//	                                 q is rat_num(q) div rat_den(q), and rat_num
//	                                 has the sign of q
//	rat_nearest_f64(q)               the float64 nearest to q ((*Rat).Float64);
//	                                 assumed never NaN
//
// Everything else (products, sums, absolute value, sign, truncated integer
// division, comparison, negation) is SMT arithmetic over Real and Int.

import (
	"fmt"
	"go/ast"
	"go/types"
	"strings"

	"golang.org/x/tools/go/ssa"
)

const SReal Sort = "Real"

func (x *X) bigRatKey() string {
	s := arraySort(SInt, SReal)
	return x.scalarKey("ghost:bigrat", s, func() Term { return x.vc.fresh("bigrat0", s) })
}

func (x *X) bigIntKey() string {
	s := arraySort(SInt, SInt)
	return x.scalarKey("ghost:bigint", s, func() Term { return x.vc.fresh("bigint0", s) })
}

func (x *X) ratAt(st *State, ref Term) Term {
	return mkSelect(x.get(st, x.bigRatKey()), ref, SReal)
}
func (x *X) intAt(st *State, ref Term) Term {
	return mkSelect(x.get(st, x.bigIntKey()), ref, SInt)
}
func (x *X) setRat(st *State, ref, v Term) {
	k := x.bigRatKey()
	st.mem[k] = x.vc.define("bigrat", mkStore(x.get(st, k), ref, v))
}
func (x *X) setInt(st *State, ref, v Term) {
	k := x.bigIntKey()
	st.mem[k] = x.vc.define("bigint", mkStore(x.get(st, k), ref, v))
}

func (x *X) bigDecls() {
	if x.bigDeclared {
		return
	}
	x.bigDeclared = true
	x.vc.decl("(declare-fun rat_text_ok (Str) Bool)")
	x.vc.decl("(declare-fun rat_of_text (Str) Real)")
	x.vc.decl("(declare-fun bigpow (Int Int) Int)")
	x.vc.decl("(declare-fun rat_num (Real) Int)")
	x.vc.decl("(declare-fun rat_den (Real) Int)")
	x.vc.decl("(declare-fun rat_nearest_f64 (Real) F64)")
	x.enc.assumption("math/big (exact model, bigmodel.go): a *Rat is a rational and a *Int an integer; SetString, Exp, Num/Denom and Float64 are uninterpreted with the stated facts (10**k >= 1, denominator positive, floor(q) = num div den, Float64 never NaN); all other operations are exact SMT arithmetic")
}

func realHalf() Term { return T(SReal, "(/ 1.0 2.0)") }

func toReal(i Term) Term { return app(SReal, "to_real", i) }

// bigpowTerm: bigpow(b, e) together with its positivity fact.
func (x *X) bigpowTerm(b, e Term) Term {
	x.bigDecls()
	p := x.vc.define("bigpow", app(SInt, "bigpow", b, e))
	x.vc.assume(mkImplies(mkAnd(app(SBool, ">=", b, intLit(1)), app(SBool, ">=", e, intLit(0))), app(SBool, ">=", p, intLit(1))))
	return p
}

// ratParts: numerator and denominator terms of q with their facts.
func (x *X) ratNum(q Term) Term {
	x.bigDecls()
	n := x.vc.define("ratnum", app(SInt, "rat_num", q))
	d := app(SInt, "rat_den", q)
	x.vc.assume(app(SBool, ">", d, intLit(0)))
	x.vc.assume(mkEq(app(SInt, "div", n, d), app(SInt, "to_int", q)))
	x.vc.assume(mkEq(app(SBool, ">=", n, intLit(0)), app(SBool, ">=", q, T(SReal, "0.0"))))
	return n
}
func (x *X) ratDen(q Term) Term {
	x.bigDecls()
	d := x.vc.define("ratden", app(SInt, "rat_den", q))
	x.vc.assume(app(SBool, ">", d, intLit(0)))
	return d
}

func truncDiv(a, b Term) Term {
	abs := func(t Term) Term { return mkIte(app(SBool, "<", t, intLit(0)), app(SInt, "-", t), t) }
	q := app(SInt, "div", abs(a), abs(b))
	neg := T(SBool, fmt.Sprintf("(xor (< %s 0) (< %s 0))", a.S, b.S))
	return mkIte(neg, app(SInt, "-", q), q)
}

// bigModel interprets a call of math/big; ok is false for functions outside
// the modelled part (they stay arbitrary, as before).
func (x *X) bigModel(st *State, name string, fn *ssa.Function, argT func(int) Term, nargs int) ([]SV, bool) {
	if !strings.Contains(name, "math/big.") || x.enc.bv {
		return nil, false
	}
	x.bigDecls()
	goInt := func(t Term) Term { return t } // results of Go type int in Int mode are mathematical integers
	switch name {
	case "math/big.NewInt":
		p := x.allocHeap(st, fn.Signature.Results().At(0).Type().Underlying().(*types.Pointer).Elem())
		x.setInt(st, p.ref, argT(0))
		return []SV{p.ref}, true
	case "math/big.NewRat":
		p := x.allocHeap(st, fn.Signature.Results().At(0).Type().Underlying().(*types.Pointer).Elem())
		x.setRat(st, p.ref, app(SReal, "/", toReal(argT(0)), toReal(argT(1))))
		return []SV{p.ref}, true
	case "(*math/big.Rat).SetString":
		z, s := argT(0), argT(1)
		ok := app(SBool, "rat_text_ok", s)
		// on failure the value of z is undefined
		x.setRat(st, z, mkIte(ok, app(SReal, "rat_of_text", s), x.vc.fresh("ratundef", SReal)))
		return []SV{mkIte(ok, z, intLit(0)), ok}, true
	case "(*math/big.Rat).SetInt":
		x.setRat(st, argT(0), toReal(x.intAt(st, argT(1))))
		return []SV{argT(0)}, true
	case "(*math/big.Rat).Inv":
		x.setRat(st, argT(0), app(SReal, "/", T(SReal, "1.0"), x.ratAt(st, argT(1))))
		return []SV{argT(0)}, true
	case "(*math/big.Rat).Mul":
		x.setRat(st, argT(0), app(SReal, "*", x.ratAt(st, argT(1)), x.ratAt(st, argT(2))))
		return []SV{argT(0)}, true
	case "(*math/big.Rat).Quo":
		x.setRat(st, argT(0), app(SReal, "/", x.ratAt(st, argT(1)), x.ratAt(st, argT(2))))
		return []SV{argT(0)}, true
	case "(*math/big.Rat).Add":
		x.setRat(st, argT(0), app(SReal, "+", x.ratAt(st, argT(1)), x.ratAt(st, argT(2))))
		return []SV{argT(0)}, true
	case "(*math/big.Rat).Abs":
		a := x.ratAt(st, argT(1))
		x.setRat(st, argT(0), mkIte(app(SBool, "<", a, T(SReal, "0.0")), app(SReal, "-", a), a))
		return []SV{argT(0)}, true
	case "(*math/big.Rat).Sign":
		a := x.ratAt(st, argT(0))
		return []SV{goInt(mkIte(app(SBool, "<", a, T(SReal, "0.0")), intLit(-1), mkIte(app(SBool, ">", a, T(SReal, "0.0")), intLit(1), intLit(0))))}, true
	case "(*math/big.Rat).Num", "(*math/big.Rat).Denom":
		q := x.vc.define("ratq", x.ratAt(st, argT(0)))
		p := x.allocHeap(st, fn.Signature.Results().At(0).Type().Underlying().(*types.Pointer).Elem())
		if strings.HasSuffix(name, "Num") {
			x.setInt(st, p.ref, x.ratNum(q))
		} else {
			x.setInt(st, p.ref, x.ratDen(q))
		}
		return []SV{p.ref}, true
	case "(*math/big.Rat).Float64":
		q := x.ratAt(st, argT(0))
		f := x.vc.define("ratf64", app(SF64, "rat_nearest_f64", q))
		x.vc.assume(mkNot(app(SBool, "fp.isNaN", f)))
		return []SV{f, x.vc.fresh("ratexact", SBool)}, true
	case "(*math/big.Int).Exp":
		if nargs == 4 {
			z, b, e, m := argT(0), x.intAt(st, argT(1)), x.intAt(st, argT(2)), argT(3)
			x.setInt(st, z, mkIte(mkEq(m, intLit(0)), x.bigpowTerm(b, e), x.vc.fresh("modexp", SInt)))
			return []SV{z}, true
		}
	case "(*math/big.Int).Quo":
		a, b := x.intAt(st, argT(1)), x.intAt(st, argT(2))
		x.setInt(st, argT(0), truncDiv(a, b))
		return []SV{argT(0)}, true
	case "(*math/big.Int).Neg":
		x.setInt(st, argT(0), app(SInt, "-", x.intAt(st, argT(1))))
		return []SV{argT(0)}, true
	case "(*math/big.Int).Cmp":
		a, b := x.intAt(st, argT(0)), x.intAt(st, argT(1))
		return []SV{goInt(mkIte(app(SBool, "<", a, b), intLit(-1), mkIte(app(SBool, ">", a, b), intLit(1), intLit(0))))}, true
	}
	return nil, false
}

// ---------------------------------------------------------------------------
// the specification side: ghost functions of the contract language

// decimalDigitsTerm: the integer nearest to text * 10^scale, halves away from
// zero, where text is read as the exact decimal number it denotes.
func (x *X) decimalDigitsTerm(text, scale Term) (digits, unit Term) {
	x.bigDecls()
	val := app(SReal, "rat_of_text", text)
	neg := app(SBool, "<", scale, intLit(0))
	mag := mkIte(neg, app(SInt, "-", scale), scale)
	p := toReal(x.bigpowTerm(intLit(10), mag))
	unit = x.vc.define("unit", mkIte(neg, app(SReal, "/", T(SReal, "1.0"), p), p))
	q := x.vc.define("scaled", app(SReal, "*", val, unit))
	isNeg := app(SBool, "<", q, T(SReal, "0.0"))
	absq := mkIte(isNeg, app(SReal, "-", q), q)
	fl := app(SInt, "to_int", app(SReal, "+", absq, realHalf()))
	digits = x.vc.define("digits", mkIte(isNeg, app(SInt, "-", fl), fl))
	return digits, unit
}

func (env *specEnv) bigGhost(name string, e *ast.CallExpr) (SV, bool) {
	x := env.x
	switch name {
	case "ratTextOK":
		x.bigDecls()
		return app(SBool, "rat_text_ok", env.evalTerm(e.Args[0])), true
	case "decimalFits":
		// decimalFits(text, scale, precision): |digits| < 10^precision
		d, _ := x.decimalDigitsTerm(env.evalTerm(e.Args[0]), env.evalTerm(e.Args[1]))
		absd := mkIte(app(SBool, "<", d, intLit(0)), app(SInt, "-", d), d)
		return app(SBool, "<", absd, x.bigpowTerm(intLit(10), env.evalTerm(e.Args[2]))), true
	case "decimalValue":
		// decimalValue(text, scale): the float64 nearest to digits / 10^scale
		d, unit := x.decimalDigitsTerm(env.evalTerm(e.Args[0]), env.evalTerm(e.Args[1]))
		f := app(SF64, "rat_nearest_f64", app(SReal, "/", toReal(d), unit))
		return f, true
	}
	return nil, false
}
