package main

import (
	"encoding/json"
	"flag"
	"fmt"
	"go/token"
	"go/types"
	"math/rand"
	"os"
	"path/filepath"
	"sort"
	"strconv"
	"strings"
	"time"

	"golang.org/x/tools/go/packages"
	"golang.org/x/tools/go/ssa"
	"golang.org/x/tools/go/ssa/ssautil"
)

const modulePath = "github.com/theory/sqljson"

type world struct {
	prog  *ssa.Program
	pkgs  []*packages.Package
	db    *ContractDB
	sent  *sentinels
	loadS float64
	// set when the grammar actions could not be extracted (see load)
	actionsNote string
	called      map[*ssa.Function]bool
}

var globalActionsNote string

func repoDir() string {
	if d := os.Getenv("GOVC_REPO"); d != "" {
		return d
	}
	return "/repo"
}

func verifDir() string {
	if d := os.Getenv("GOVC_VERIF"); d != "" {
		return d
	}
	return "/verif"
}

func load() (*world, error) {
	start := time.Now()
	cfg := &packages.Config{Mode: packages.LoadAllSyntax, Dir: repoDir(), BuildFlags: []string{"-tags=verif"},
		Env: append(os.Environ(), "GOFLAGS=-mod=mod", "GOPROXY=off", "GOSUMDB=off", "GOTOOLCHAIN=local")}
	// the semantic actions of the generated parser, extracted into an overlay
	// file that exists only for this load (see actions.go)
	ovName, ovSrc, err := actionsOverlay(repoDir())
	actionsNote := ""
	if err != nil {
		// grammar.y and grammar.go cannot be matched rule by rule (one of them
		// was edited without the other): the compiled code is unaffected, so
		// the other obligations go ahead; the actions are reported as unchecked
		actionsNote = "grammar actions NOT checked in this run: " + err.Error()
		fmt.Println("WARNING:", actionsNote)
		ovSrc = nil
	}
	if ovSrc != nil {
		cfg.Overlay = map[string][]byte{ovName: ovSrc}
	}
	pkgs, err := packages.Load(cfg, "./path/...")
	if err != nil {
		return nil, err
	}
	var errs []string
	packages.Visit(pkgs, nil, func(p *packages.Package) {
		for _, e := range p.Errors {
			errs = append(errs, e.Error())
		}
	})
	if len(errs) > 0 {
		return nil, fmt.Errorf("package load errors (contracts out of date or tree does not build with -tags=verif):\n  %s", strings.Join(errs, "\n  "))
	}
	prog, _ := ssautil.AllPackages(pkgs, ssa.NaiveForm|ssa.GlobalDebug|ssa.InstantiateGenerics)
	prog.Build()
	w := &world{prog: prog, pkgs: pkgs, actionsNote: actionsNote}
	globalActionsNote = actionsNote
	w.db = loadContracts(prog, pkgs)
	globalUmbrella = w.db.umbrella
	w.db.indexPkgs(pkgs)
	w.sent = collectSentinels(prog, modulePath)
	w.loadS = time.Since(start).Seconds()
	return w, nil
}

func contains(xs []string, s string) bool {
	for _, x := range xs {
		if x == s {
			return true
		}
	}
	return false
}

// supportKinds are obligations every property relying on the function needs.
var supportKinds = map[string]bool{"inv-init": true, "inv-preserve": true, "pre": true, "decreases": true, "cover": true}

type knownFinding struct {
	Property   string `json:"property"`
	Obligation string `json:"obligation"`
	Status     string `json:"status"` // known | fixed
	What       string `json:"what"`
	Witness    string `json:"witness,omitempty"`
	Commit     string `json:"commit,omitempty"`
}

func (k knownFinding) Func() string {
	if i := strings.Index(k.Obligation, "/"); i >= 0 {
		return k.Obligation[:i]
	}
	return k.Obligation
}

func loadKnown() []knownFinding {
	var out struct {
		Findings []knownFinding `json:"findings"`
	}
	b, err := os.ReadFile(filepath.Join(verifDir(), "known_findings.json"))
	if err != nil {
		return nil
	}
	if err := json.Unmarshal(b, &out); err != nil {
		fmt.Fprintf(os.Stderr, "known_findings.json: %v\n", err)
		return nil
	}
	return out.Findings
}

func main() {
	if len(os.Args) < 2 {
		fmt.Fprintln(os.Stderr, "usage: govc check|list|dump|replay ...")
		os.Exit(2)
	}
	switch os.Args[1] {
	case "check":
		os.Exit(cmdCheck(os.Args[2:]))
	case "actions":
		// print the extracted grammar actions (the in-memory overlay file)
		_, src, err := actionsOverlay(repoDir())
		if err != nil {
			fmt.Fprintln(os.Stderr, err)
			os.Exit(2)
		}
		os.Stdout.Write(src)
		return
	case "list":
		os.Exit(cmdList(os.Args[2:]))
	case "dump":
		os.Exit(cmdDump(os.Args[2:]))
	case "replay":
		os.Exit(cmdReplay(os.Args[2:]))
	default:
		fmt.Fprintln(os.Stderr, "unknown command", os.Args[1])
		os.Exit(2)
	}
}

func cmdList(args []string) int {
	w, err := load()
	if err != nil {
		fmt.Fprintln(os.Stderr, err)
		return 2
	}
	for _, c := range w.db.sortedContracts() {
		fmt.Printf("%-60s props=%v requires=%d ensures=%d inv=%d file=%s\n", c.Key, c.Props, len(c.Requires), len(c.Ensures), len(c.Invariants), c.File)
	}
	for _, l := range w.db.lemmas {
		fmt.Printf("lemma %-54s props=%v\n", l.Name, l.Props)
	}
	for _, e := range w.db.errors {
		fmt.Println("ERROR:", e)
	}
	return 0
}

func cmdDump(args []string) int {
	fs := flag.NewFlagSet("dump", flag.ExitOnError)
	fname := fs.String("f", "", "function (substring of its name)")
	obl := fs.String("o", "", "obligation name substring")
	_ = fs.Parse(args)
	w, err := load()
	if err != nil {
		fmt.Fprintln(os.Stderr, err)
		return 2
	}
	for _, c := range w.allTargets() {
		if !(strings.Contains(c.Key, *fname) || strings.HasPrefix(*fname, "=") && c.Key == (*fname)[1:]) || c.Fn == nil {
			continue
		}
		res := verifyFunction(w.prog, w.db, c.Fn, c, modulePath, w.sent)
		for _, e := range res.Errors {
			fmt.Println("; ERROR", e)
		}
		for _, u := range res.Unsupported {
			fmt.Println("; UNSUPPORTED", u)
		}
		for _, o := range res.Obligations {
			if *obl == "" {
				fmt.Printf("; obligation %s  [%s] %s\n", o.Name, strings.Join(o.Props, ","), o.Text)
				continue
			}
			if strings.Contains(o.Name, *obl) {
				fmt.Printf("; ---- %s\n%s\n", o.Name, o.script("", 0))
			}
		}
	}
	return 0
}

type checkOpts struct {
	prop    string
	tier    string
	verbose bool
	seed    int
	funcs   string
}

func cmdCheck(args []string) int {
	fs := flag.NewFlagSet("check", flag.ExitOnError)
	var o checkOpts
	fs.StringVar(&o.prop, "p", "", "property id (Cxx) or 'all'")
	fs.StringVar(&o.tier, "tier", "", "quick|thorough")
	fs.BoolVar(&o.verbose, "v", false, "verbose")
	fs.StringVar(&o.funcs, "f", "", "only functions whose name contains this")
	_ = fs.Parse(args)
	if o.tier == "" {
		o.tier = os.Getenv("VERIF_TIER")
	}
	if o.tier == "" {
		o.tier = "quick"
	}
	boundedTier = o.tier
	if s := os.Getenv("VERIF_SEED"); s != "" {
		o.seed, _ = strconv.Atoi(s)
	}
	if o.prop == "" {
		fmt.Fprintln(os.Stderr, "check: -p required")
		return 2
	}
	return runCheck(o)
}

type oblReport struct {
	Name    string  `json:"name"`
	Kind    string  `json:"kind"`
	Verdict string  `json:"verdict"`
	Solver  string  `json:"solver"`
	TimeS   float64 `json:"time_s"`
	Text    string  `json:"text,omitempty"`
}

func runCheck(o checkOpts) int {
	start := time.Now()
	w, err := load()
	if err != nil {
		fmt.Printf("UNDECIDED property=%s reason=load: %v\n", o.prop, err)
		return 2
	}
	if len(w.db.errors) > 0 {
		for _, e := range w.db.errors {
			fmt.Println("CONTRACT-ERROR:", e)
		}
		fmt.Printf("UNDECIDED property=%s reason=contract files out of date\n", o.prop)
		return 2
	}
	prop := o.prop
	// select functions
	var results []*funcResult
	var selected []*Obligation
	var engineErrors []string
	funcsUnder := []string{}
	genStart := time.Now()
	for _, c := range w.allTargets() {
		if c.Fn == nil || c.Ghost {
			continue
		}
		if o.funcs != "" && !strings.Contains(c.Key, o.funcs) {
			continue
		}
		// the frame obligations (nothing outside modifies is written, no
		// package variable changes) carry C05, C09 and C19 for every
		// function under contract, also those whose contract names other
		// properties only; such functions contribute just their frame
		// obligations
		frameOnly := false
		if prop != "all" && !contractMentions(c, prop) {
			if !(framePropSet[prop] || w.db.isFrameProp(prop)) || c.Trusted != "" {
				continue
			}
			frameOnly = true
		}
		res := verifyFunction(w.prog, w.db, c.Fn, c, modulePath, w.sent)
		// an umbrella property includes the obligations of its members
		for _, ob := range res.Obligations {
			for u, members := range w.db.umbrella {
				if contains(ob.Props, u) {
					continue
				}
				for _, mprop := range members {
					if contains(ob.Props, mprop) {
						ob.Props = append(append([]string{}, ob.Props...), u)
						break
					}
				}
			}
		}
		results = append(results, res)
		engineErrors = append(engineErrors, res.Errors...)
		has := false
		for _, ob := range res.Obligations {
			if prop == "all" || contains(ob.Props, prop) {
				if !supportKinds[ob.Kind] {
					has = true
				}
			}
		}
		if !has {
			continue
		}
		funcsUnder = append(funcsUnder, res.Name)
		// which properties an obligation counts for (reported with -p all)
		hp := map[string]bool{}
		for _, ob := range res.Obligations {
			if !supportKinds[ob.Kind] {
				for _, q := range ob.Props {
					hp[q] = true
				}
			}
		}
		for _, ob := range res.Obligations {
			switch {
			case supportKinds[ob.Kind] && !ob.Explicit:
				ob.CountsFor = sortedKeys(hp)
			case supportKinds[ob.Kind]:
				for _, q := range ob.Props {
					if hp[q] {
						ob.CountsFor = append(ob.CountsFor, q)
					}
				}
			default:
				ob.CountsFor = ob.Props
			}
		}
		for _, ob := range res.Obligations {
			if frameOnly {
				if (ob.Kind == "frame" || ob.Kind == "objinv") && contains(ob.Props, prop) {
					selected = append(selected, ob)
				}
				continue
			}
			if prop == "all" || contains(ob.Props, prop) || (supportKinds[ob.Kind] && !ob.Explicit) {
				selected = append(selected, ob)
			}
		}
	}
	// object invariants: every owner must be a function some run checks
	if len(w.db.objInvs) > 0 {
		tset := map[*ssa.Function]*Contract{}
		for _, c := range w.allTargets() {
			if c.Fn != nil {
				tset[c.Fn] = c
			}
		}
		engineErrors = append(engineErrors, objInvHoles(w.prog, w.db, func(fn *ssa.Function) bool {
			if c := tset[fn]; c != nil {
				return c.Trusted == "" && !c.Ghost
			}
			return !token.IsExported(fn.Name()) && !hasLoops(fn) && w.calledInModule()[fn]
		})...)
	}
	// lemmas
	for _, l := range w.db.lemmas {
		if prop != "all" && !contains(l.Props, prop) {
			continue
		}
		obls, errs := verifyLemma(w, l)
		engineErrors = append(engineErrors, errs...)
		selected = append(selected, obls...)
	}
	genS := time.Since(genStart).Seconds()
	if len(engineErrors) > 0 {
		seenErr := map[string]bool{}
		for _, e := range engineErrors {
			if seenErr[e] {
				continue
			}
			seenErr[e] = true
			fmt.Println("ENGINE-ERROR:", e)
		}
		fmt.Printf("UNDECIDED property=%s reason=engine or contract error (see above)\n", prop)
		return 2
	}
	if len(selected) == 0 {
		fmt.Printf("UNDECIDED property=%s reason=no obligations generated (vacuous check)\n", prop)
		return 2
	}
	// discharge
	work, err := os.MkdirTemp("", "govc-")
	if err != nil {
		fmt.Println("UNDECIDED property=" + prop + " reason=" + err.Error())
		return 2
	}
	defer os.RemoveAll(work)
	rc := runConfig{timeoutS: 10, solvers: []string{"z3-new", "z3", "cvc5"}, late: []string{"cvc5"}, lateAfterMS: 1500, workdir: work, seed: o.seed}
	if o.tier == "thorough" {
		rc.timeoutS = 60
		rc.solvers = []string{"z3-new", "z3", "cvc5"}
		rc.late = nil
	}
	solveStart := time.Now()
	par := 16
	if len(rc.solvers) > 2 && len(rc.late) == 0 {
		par = 6
	} else {
		par = 8
	}
	dischargeAll(selected, rc, par)
	// An obligation no back end decided within the limit gets a second, longer
	// attempt with every back end before it is reported: a loaded machine must
	// not turn a slow proof into an alarm.
	var again []*Obligation
	for _, ob := range selected {
		if ob.Verdict != "sat" && ob.Verdict != "unsat" && ob.Kind != "cover" {
			again = append(again, ob)
		}
	}
	if len(again) > 0 && o.tier != "thorough" {
		rc2 := rc
		rc2.timeoutS = rc.timeoutS * 4
		rc2.late = nil
		rc2.idxBase = len(selected)
		first := map[*Obligation]float64{}
		for _, ob := range again {
			first[ob] = ob.TimeS
		}
		dischargeAll(again, rc2, 4)
		for _, ob := range again {
			ob.TimeS += first[ob]
		}
	}
	solveS := time.Since(solveStart).Seconds()

	known := loadKnown()
	isKnown := func(name string) *knownFinding {
		for i := range known {
			if known[i].Obligation == name && known[i].Status == "known" {
				return &known[i]
			}
		}
		return nil
	}
	byBackend := map[string]int{}
	byKind := map[string]int{}
	var reports []oblReport
	var failed []*Obligation
	var knownHit []string
	discharged := 0
	covers, coversOK := 0, 0
	var coverUndecided []string
	var solverTime float64
	for _, ob := range selected {
		solverTime += ob.TimeS
		byKind[ob.Kind]++
		reports = append(reports, oblReport{ob.Name, ob.Kind, ob.Verdict, ob.Solver, ob.TimeS, ob.Text})
		if ob.Kind == "cover" {
			covers++
			if ob.ok() {
				coversOK++
			}
		}
		if ob.ok() {
			discharged++
			byBackend[ob.Solver]++
			continue
		}
		if ob.Kind == "cover" && (ob.Verdict == "timeout" || ob.Verdict == "unknown") {
			// a vacuity probe that the solvers could not answer is recorded, not failed:
			// only a definite "unsat" shows contradictory assumptions
			coverUndecided = append(coverUndecided, ob.Name)
			continue
		}
		if kf := isKnown(ob.Name); kf != nil {
			line := fmt.Sprintf("KNOWN-FINDING: property=%s %s: %s", prop, ob.Name, kf.What)
			if ob.Verdict == "sat" && os.Getenv("GOVC_NOEVIDENCE") == "" {
				rp := replayFile{Property: prop, Obligation: ob.Name, Kind: ob.Kind, Func: ob.Func, Text: ob.Text, Verdict: ob.Verdict, Solver: ob.Solver, Model: ob.Model, Pos: ob.Pos}
				if tryReplay(w, ob, &rp) {
					line += " [counterexample replayed on the real code: confirmed]"
				}
				dir := filepath.Join(verifDir(), "evidence", "replay", prop)
				_ = os.MkdirAll(dir, 0o755)
				b, _ := json.MarshalIndent(rp, "", " ")
				_ = os.WriteFile(filepath.Join(dir, "known_"+sanitize(ob.Name)+".json"), b, 0o644)
			}
			knownHit = append(knownHit, line)
			continue
		}
		failed = append(failed, ob)
	}
	sort.Slice(reports, func(i, j int) bool { return reports[i].TimeS > reports[j].TimeS })
	for _, l := range knownHit {
		fmt.Println(l)
	}
	// known findings that no longer fail are reported (not an error)
	for _, kf := range known {
		if kf.Status != "known" {
			continue
		}
		found := false
		relevant := false
		for _, ob := range selected {
			if ob.Func == kf.Func() {
				relevant = true
			}
		}
		if !relevant {
			continue
		}
		for _, ob := range selected {
			if ob.Name == kf.Obligation {
				found = true
				if ob.ok() {
					fmt.Printf("NOTE: known finding %s now discharges\n", kf.Obligation)
				}
			}
		}
		_ = found
	}
	exit := 0
	replayDir := filepath.Join(verifDir(), "evidence", "replay", prop)
	// functions whose contract lost a clause because the code no longer has a
	// name it mentions: a failure there may be an artefact of the missing
	// clause, so it is reported as undecided, not as a violation
	staleFn := map[string]bool{}
	for _, r := range results {
		if len(r.Stale) > 0 {
			staleFn[r.Name] = true
		}
	}
	undecidedStale := 0
	for _, ob := range failed {
		if staleFn[ob.Func] {
			undecidedStale++
			fmt.Printf("UNDECIDED-OBLIGATION %s verdict=%s: the contract of %s has stale clauses (see STALE-CLAUSE); bring the contract up to date with the code\n", ob.Name, ob.Verdict, ob.Func)
			continue
		}
		exit = 1
		if os.Getenv("GOVC_NOEVIDENCE") != "" {
			replayDir = filepath.Join(os.TempDir(), "govc-replay", prop)
		}
		_ = os.MkdirAll(replayDir, 0o755)
		path := filepath.Join(replayDir, sanitize(ob.Name)+".json")
		rp := replayFile{Property: prop, Obligation: ob.Name, Kind: ob.Kind, Func: ob.Func, Text: ob.Text, Verdict: ob.Verdict, Solver: ob.Solver,
			Model: ob.Model, SolverOutput: truncate(ob.Output, 4000), Pos: ob.Pos}
		confirmed := false
		if ob.Verdict == "sat" && ob.Kind != "cover" {
			confirmed = tryReplay(w, ob, &rp)
		}
		b, _ := json.MarshalIndent(rp, "", " ")
		_ = os.WriteFile(path, b, 0o644)
		suffix := ""
		if !confirmed {
			suffix = " no-failing-input-found"
		}
		fmt.Printf("FAILED-OBLIGATION %s verdict=%s solver=%s props=%s pos=%s text=%q\n", ob.Name, ob.Verdict, ob.Solver, strings.Join(ob.CountsFor, ","), ob.Pos, ob.Text)
		fmt.Printf("VIOLATION property=%s replay=%s%s\n", prop, path, suffix)
	}
	if o.verbose {
		for _, r := range reports {
			fmt.Printf("  %-8s %-8s %6.2fs %s\n", r.Verdict, r.Solver, r.TimeS, r.Name)
		}
	}
	if undecidedStale > 0 && exit == 0 {
		exit = 2
		fmt.Printf("UNDECIDED property=%s reason=%d obligation(s) could not be decided because contract clauses are stale\n", prop, undecidedStale)
	}
	globalStale = append([]string{}, w.db.stale...)
	sort.Strings(globalStale)
	for _, st := range globalStale {
		fmt.Println("STALE-CLAUSE", st)
	}
	// bounded stand-ins registered for this property (never counted as proof)
	if o.funcs == "" && prop != "all" {
		br, bviol := boundedFor(prop, os.Getenv("GOVC_NOEVIDENCE") != "")
		globalBounded = br
		if bviol > 0 {
			exit = 1
		}
	} else if prop == "all" && o.funcs == "" {
		globalBounded = nil
		for _, f := range boundedFilesAll() {
			pr := strings.SplitN(filepath.Base(f), "_", 2)[0]
			br, bviol := boundedFor(pr, true)
			_ = br
			if bviol > 0 {
				exit = 1
			}
		}
	}
	// evidence
	writeEvidence(prop, o, results, selected, funcsUnder, discharged, byBackend, byKind, reports, knownHit, len(failed), covers, coversOK,
		time.Since(start).Seconds(), solverTime, w.loadS, genS, solveS, rc, coverUndecided)
	fmt.Printf("property=%s tier=%s functions=%d obligations=%d discharged=%d known=%d failed=%d wall=%.1fs (load %.1fs, vcgen %.1fs, solve %.1fs)\n",
		prop, o.tier, len(funcsUnder), len(selected), discharged, len(knownHit), len(failed), time.Since(start).Seconds(), w.loadS, genS, solveS)
	return exit
}

var globalUmbrella = map[string][]string{}

var framePropSet = map[string]bool{"C05": true, "C09": true, "C19": true}

func contractMentions(c *Contract, prop string) bool {
	if contains(c.Props, prop) || contains(c.SafetyProps, prop) {
		return true
	}
	for _, mprop := range globalUmbrella[prop] {
		if contractMentions(c, mprop) {
			return true
		}
	}
	for _, cls := range [][]*Clause{c.Requires, c.Ensures, c.Invariants, c.AtCalls} {
		for _, cl := range cls {
			if contains(cl.Props, prop) {
				return true
			}
		}
	}
	// schematic families
	if c.Fn != nil && protocolKind(c.Fn.Signature) != "" && !c.NoSchematic {
		for _, p := range []string{"C05", "C06", "C07", "C08", "C09", "C19", "C20"} {
			if p == prop {
				return true
			}
		}
	}
	return false
}

type replayFile struct {
	Property     string `json:"property"`
	Obligation   string `json:"obligation"`
	Kind         string `json:"kind"`
	Func         string `json:"function"`
	Pos          string `json:"pos,omitempty"`
	Text         string `json:"text"`
	Verdict      string `json:"verdict"`
	Solver       string `json:"solver"`
	Model        string `json:"model,omitempty"`
	SolverOutput string `json:"solver_output,omitempty"`
	ReplayTest   string `json:"replay_test,omitempty"`
	ReplayPkgDir string `json:"replay_pkg_dir,omitempty"`
	ReplayOutput string `json:"replay_output,omitempty"`
	Confirmed    bool   `json:"confirmed_on_real_code"`
	Note         string `json:"note,omitempty"`
}

func writeEvidence(prop string, o checkOpts, results []*funcResult, selected []*Obligation, funcs []string, discharged int,
	byBackend, byKind map[string]int, reports []oblReport, knownHit []string, nfailed, covers, coversOK int,
	wall, solverTime, loadS, genS, solveS float64, rc runConfig, coverUndecided []string) {
	assump := map[string]bool{}
	unsup := map[string]bool{}
	inl := map[string]bool{}
	hav := map[string]bool{}
	trusted := []string{}
	for _, r := range results {
		if !contains(funcs, r.Name) {
			continue
		}
		for _, a := range r.Assumptions {
			assump[a] = true
			if strings.HasPrefix(a, "TRUSTED") {
				trusted = append(trusted, a)
			}
		}
		for _, u := range r.Unsupported {
			unsup[r.Name+": "+u] = true
		}
		for _, i := range r.Inlined {
			inl[i] = true
		}
		for _, h := range r.Havoced {
			hav[h] = true
		}
	}
	if globalActionsNote != "" {
		unsup[globalActionsNote] = true
	}
	var samples []any
	for i, ob := range selected {
		if i%maxInt(1, len(selected)/8) == 0 && len(samples) < 10 {
			samples = append(samples, map[string]any{"obligation": ob.Name, "kind": ob.Kind, "formula_source": ob.Text, "verdict": ob.Verdict, "solver": ob.Solver})
		}
	}
	slow := reports
	if len(slow) > 8 {
		slow = slow[:8]
	}
	proofObls := len(selected) - covers
	proofDischarged := discharged - coversOK
	level := "proof"
	cov := map[string]any{
		"obligations":               proofObls,
		"discharged":                proofDischarged,
		"checker_cmd":               fmt.Sprintf("bin/govc check -p %s -tier %s   (solvers %v, %ds per obligation; z3 = 4.8.12, z3-new = 5.1.0, cvc5 = 1.0.x)", prop, o.tier, rc.solvers, rc.timeoutS),
		"trusted_base":              trustedBase(assump, trusted),
		"functions_under_contract":  funcs,
		"obligations_by_kind":       byKind,
		"by_backend":                byBackend,
		"solver_time_s":             round2(solverTime),
		"phase_s":                   map[string]float64{"load_and_ssa": round2(loadS), "vc_generation": round2(genS), "solving_wall": round2(solveS)},
		"slowest":                   slow,
		"vacuity":                   map[string]any{"covers": covers, "covers_sat": coversOK, "covers_undecided": coverUndecided},
		"known_findings":            knownHit,
		"bounded_checks":            boundedEvidence(),
		"inlined_callees":           keysOf(inl),
		"uncontracted_callees":      keysOf(hav),
		"abstracted_or_unsupported": keysOf(unsup),
		"samples":                   samples,
		"integers":                  "mathematical Int with explicit wrap per machine operation (functions marked 'mode bv' use 64/32-bit vectors and IEEE floating point)",
		"extraction_drops":          "bodies of functions outside the module (assumed contracts), text of error messages, DebugRefs, object iteration order, heap addresses; panics become unreachability obligations; termination only where a decreases clause exists. The functions parser.pathAction_N are the cases of the generated parser's action switch, copied verbatim from /repo's grammar.go into an in-memory overlay on every run (never written to disk) with their contracts derived from grammar.y; the LALR driver around them (tables, value stack, error recovery) is dropped and trusted to run the action of rule N on the values of that rule's symbols",
	}
	if len(knownHit) > 0 || nfailed > 0 {
		level = "other"
		cov["explanation"] = fmt.Sprintf("proof obligations generated from the current source: %d, discharged: %d; %d obligation(s) fail and are listed as known findings, %d unlisted failure(s). Because discharged != obligations this run is not a proof-level claim for the whole property; every other obligation was discharged by the SMT back ends.",
			proofObls, proofDischarged, len(knownHit), nfailed)
	}
	boundedKnown := 0
	for _, r := range globalBounded {
		boundedKnown += r.Known
	}
	if boundedKnown > 0 {
		// a property with a recorded, unrepaired defect is not claimed at proof
		// level, also when the defect shows in a bounded stand-in only
		level = "other"
		note := fmt.Sprintf("%d input(s) of the bounded stand-in(s) fail and are listed as known findings (printed as KNOWN-FINDING), so the property is not claimed at proof level.", boundedKnown)
		if e, ok := cov["explanation"].(string); ok {
			cov["explanation"] = e + " " + note
		} else {
			cov["explanation"] = fmt.Sprintf("proof obligations generated from the current source: %d, discharged: %d. ", proofObls, proofDischarged) + note
		}
	}
	if len(globalStale) > 0 {
		// clauses that could not be checked because the code no longer has what
		// they name: the remaining obligations stand, but this is not a proof run
		level = "other"
		cov["stale_clauses"] = globalStale
		cov["explanation"] = fmt.Sprintf("%v %d contract clause(s) were left out because they name something the current code does not have (renamed local, removed loop, renamed function); the remaining %d obligations were checked.", cov["explanation"], len(globalStale), proofObls)
	}
	var assumptions []string
	for a := range assump {
		assumptions = append(assumptions, a)
	}
	sort.Strings(assumptions)
	assumptions = append(assumptions, "govc itself (SSA→SMT translation, contract compiler, frame analysis) and the SMT solvers are trusted")
	ev := map[string]any{
		"property_id": prop,
		"tier":        o.tier,
		"seed":        o.seed,
		"level":       level,
		"coverage":    cov,
		"assumptions": assumptions,
		"wall_s":      round2(wall),
		"violations":  nfailed,
	}
	if os.Getenv("GOVC_NOEVIDENCE") != "" {
		return
	}
	dir := filepath.Join(verifDir(), "evidence")
	_ = os.MkdirAll(dir, 0o755)
	b, _ := json.MarshalIndent(ev, "", " ")
	_ = os.WriteFile(filepath.Join(dir, prop+".json"), b, 0o644)
}

func trustedBase(assump map[string]bool, trusted []string) []string {
	out := []string{"govc VC generator (this repository, /verif/engine)", "z3 4.8.12 / z3-new 5.1.0 / cvc5 1.0 (whichever answered)", "go/ssa (x/tools v0.29.0) naive-form translation of the Go source"}
	out = append(out, trusted...)
	for a := range assump {
		if strings.HasPrefix(a, "external ") || strings.Contains(a, "assumed") {
			out = append(out, a)
		}
	}
	sort.Strings(out[3:])
	return out
}

func keysOf(m map[string]bool) []string {
	out := make([]string, 0, len(m))
	for k := range m {
		out = append(out, k)
	}
	sort.Strings(out)
	return out
}

func round2(f float64) float64 { return float64(int(f*100+0.5)) / 100 }

func maxInt(a, b int) int {
	if a > b {
		return a
	}
	return b
}

// allTargets: explicit contracts plus an empty contract for every function
// of a package whose contract file carries a "//@ sweep" directive (these get
// the safety sweep and, in package exec, the schematic protocol clauses).
func (w *world) allTargets() []*Contract {
	out := w.db.sortedContracts()
	seen := map[*ssa.Function]bool{}
	for _, c := range out {
		seen[c.Fn] = true
	}
	var extra []*Contract
	for _, pkg := range w.pkgs {
		sw, ok := w.db.sweeps[pkg]
		if !ok {
			continue
		}
		sp := w.prog.Package(pkg.Types)
		if sp == nil {
			continue
		}
		var fns []*ssa.Function
		for _, m := range sortedMembers(sp) {
			switch m := m.(type) {
			case *ssa.Function:
				fns = append(fns, m)
			case *ssa.Type:
				for _, t := range []types.Type{m.Type(), types.NewPointer(m.Type())} {
					ms := w.prog.MethodSets.MethodSet(t)
					for i := 0; i < ms.Len(); i++ {
						if f := w.prog.MethodValue(ms.At(i)); f != nil && f.Pkg == sp && f.Synthetic == "" {
							fns = append(fns, f)
						}
					}
				}
			}
		}
		for _, f := range fns {
			if seen[f] || f.Synthetic != "" || f.Name() == "init" || len(f.Blocks) == 0 {
				continue
			}
			if pos := w.prog.Fset.Position(f.Pos()); strings.HasSuffix(pos.Filename, "_verif.go") || strings.HasSuffix(pos.Filename, "_test.go") {
				continue
			}
			skip := false
			for _, ex := range sw.Exclude {
				if strings.Contains(funcName(f), ex) {
					skip = true
				}
			}
			if skip {
				continue
			}
			// an unexported, loop-free helper without a contract that the module
			// itself calls is inlined at every call site and checked there, with
			// the arguments it is actually given; checking it once more on its own,
			// for arguments no caller passes, would only produce "needs contract"
			// alarms on helpers extracted during clean-ups
			if !token.IsExported(f.Name()) && !hasLoops(f) && w.calledInModule()[f] {
				seen[f] = true
				continue
			}
			seen[f] = true
			extra = append(extra, &Contract{Key: funcName(f), Pkg: pkg, Fn: f, Props: nil, SafetyProps: sw.Props, File: "sweep", Swept: true})
		}
	}
	sort.Slice(extra, func(i, j int) bool { return extra[i].Key < extra[j].Key })
	return append(out, extra...)
}

// sortedPkgs and sortedMembers give map-backed SSA collections a fixed order,
// so that the generated conditions are identical from run to run.
func sortedPkgs(prog *ssa.Program) []*ssa.Package {
	ps := prog.AllPackages()
	sort.Slice(ps, func(i, j int) bool { return ps[i].Pkg.Path() < ps[j].Pkg.Path() })
	debugShuffle(len(ps), func(i, j int) { ps[i], ps[j] = ps[j], ps[i] })
	return ps
}

func sortedMembers(pkg *ssa.Package) []ssa.Member {
	names := make([]string, 0, len(pkg.Members))
	for n := range pkg.Members {
		names = append(names, n)
	}
	sort.Strings(names)
	debugShuffle(len(names), func(i, j int) { names[i], names[j] = names[j], names[i] })
	out := make([]ssa.Member, len(names))
	for i, n := range names {
		out[i] = pkg.Members[n]
	}
	return out
}

// debugShuffle permutes an ordered collection when GOVC_SHUFFLE=<seed> is set:
// a self-test that no verdict depends on the iteration order.
func debugShuffle(n int, swap func(i, j int)) {
	seed := os.Getenv("GOVC_SHUFFLE")
	if seed == "" {
		return
	}
	v, _ := strconv.ParseInt(seed, 10, 64)
	rand.New(rand.NewSource(v)).Shuffle(n, swap)
}

func (db *ContractDB) isFrameProp(p string) bool {
	for _, ps := range db.frameProps {
		if contains(ps, p) {
			return true
		}
	}
	return false
}

var globalBounded []boundedResult
var globalStale []string

func boundedFilesAll() []string {
	m, _ := filepath.Glob(filepath.Join(verifDir(), "bounded", "C*_*.go.tmpl"))
	sort.Strings(m)
	return m
}

// boundedEvidence lists the bounded stand-ins that ran with this check; they
// are labelled bounded and are not part of obligations/discharged.
func boundedEvidence() []map[string]any {
	out := []map[string]any{}
	for _, r := range globalBounded {
		out = append(out, map[string]any{"name": r.Name, "label": "bounded (not a proof)", "bound": r.Bound, "cases": r.Cases,
			"failures": len(r.Failures), "known_findings": r.Known, "ran": r.Ran, "template": strings.TrimPrefix(r.File, verifDir()+"/")})
	}
	return out
}

// calledInModule: the module functions that some module function calls directly.
func (w *world) calledInModule() map[*ssa.Function]bool {
	if w.called != nil {
		return w.called
	}
	w.called = map[*ssa.Function]bool{}
	for _, pkg := range sortedPkgs(w.prog) {
		if pkg.Pkg == nil || !isModulePkg(pkg.Pkg.Path(), modulePath) {
			continue
		}
		var fns []*ssa.Function
		for _, m := range sortedMembers(pkg) {
			switch m := m.(type) {
			case *ssa.Function:
				fns = append(fns, m)
				fns = append(fns, m.AnonFuncs...)
			case *ssa.Type:
				for _, t := range []types.Type{m.Type(), types.NewPointer(m.Type())} {
					ms := w.prog.MethodSets.MethodSet(t)
					for i := 0; i < ms.Len(); i++ {
						if f := w.prog.MethodValue(ms.At(i)); f != nil {
							fns = append(fns, f)
							fns = append(fns, f.AnonFuncs...)
						}
					}
				}
			}
		}
		for _, f := range fns {
			if strings.HasSuffix(w.prog.Fset.Position(f.Pos()).Filename, "_test.go") {
				continue
			}
			for _, b := range f.Blocks {
				for _, in := range b.Instrs {
					if c, ok := in.(ssa.CallInstruction); ok {
						if callee := c.Common().StaticCallee(); callee != nil && callee != f {
							w.called[callee] = true
						}
					}
				}
			}
		}
	}
	return w.called
}
