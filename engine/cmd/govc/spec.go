package main

// Evaluation of contract expressions (type-checked Go ASTs) to SMT terms.

import (
	"fmt"
	"go/ast"
	"go/constant"
	"go/token"
	"go/types"
	"strconv"
	"strings"

	"golang.org/x/tools/go/ssa"
)

type specEnv struct {
	x        *X
	st       *State
	old      *State
	vars     map[string]SV
	ovars    map[string]SV // values of names inside old(...); nil = same as vars
	info     *types.Info
	fr       *Frame
	bound    map[string]Term
	where    string
	loopPre  *State        // state at loop entry (loop clauses only)
	loopVars map[string]SV // bindings of locals at loop entry
}

type specError struct{ msg string }

func (env *specEnv) fail(format string, a ...any) {
	panic(specError{fmt.Sprintf("%s: ", env.where) + fmt.Sprintf(format, a...)})
}

func (env *specEnv) typeOf(e ast.Expr) types.Type {
	tv, ok := env.info.Types[e]
	if !ok {
		if id, ok := e.(*ast.Ident); ok {
			if o := env.info.Uses[id]; o != nil {
				return o.Type()
			}
		}
		env.fail("no type for %s", exprString(e))
	}
	return tv.Type
}

func exprString(e ast.Expr) string {
	return types.ExprString(e)
}

func (env *specEnv) evalTerm(e ast.Expr) Term {
	v := env.eval(e)
	return env.x.asTerm(v, env.typeOf(e))
}

func (env *specEnv) evalBool(e ast.Expr) Term {
	t := env.evalTerm(e)
	if t.Sort != SBool {
		env.fail("expression %s is not boolean", exprString(e))
	}
	return t
}

func (env *specEnv) withState(st *State, vars map[string]SV) *specEnv {
	c := *env
	c.st = st
	if vars != nil {
		c.vars = vars
	}
	return &c
}

func (env *specEnv) eval(e ast.Expr) SV {
	x := env.x
	if tv, ok := env.info.Types[e]; ok && tv.Value != nil && !tv.IsType() {
		t := tv.Type
		if b, ok := t.Underlying().(*types.Basic); ok && b.Info()&types.IsUntyped != 0 {
			t = types.Default(t)
		}
		return x.enc.constant(tv.Value, t)
	}
	switch e := e.(type) {
	case *ast.ParenExpr:
		return env.eval(e.X)
	case *ast.Ident:
		return env.ident(e)
	case *ast.BasicLit:
		env.fail("literal without constant value: %s", e.Value)
	case *ast.SelectorExpr:
		return env.selector(e)
	case *ast.StarExpr:
		v := env.eval(e.X)
		p := x.ptrOf(v, env.typeOf(e.X))
		return x.load(env.st, p)
	case *ast.UnaryExpr:
		switch e.Op {
		case token.NOT:
			return mkNot(env.evalBool(e.X))
		case token.SUB:
			v := env.evalTerm(e.X)
			t := env.typeOf(e.X)
			if isFloat(t) {
				return app(v.Sort, "fp.neg", v)
			}
			if x.enc.bv {
				return app(v.Sort, "bvneg", v)
			}
			return app(SInt, "-", v)
		case token.ADD:
			return env.eval(e.X)
		case token.AND:
			env.fail("address-of is not allowed in contracts")
		}
	case *ast.BinaryExpr:
		return env.binary(e)
	case *ast.CallExpr:
		return env.call(e)
	case *ast.IndexExpr:
		return env.index(e)
	case *ast.TypeAssertExpr:
		v := env.evalTerm(e.X)
		_, pv := x.typeTest(v, env.typeOf(e))
		return pv
	case *ast.FuncLit:
		env.fail("function literal outside forall/exists")
	}
	env.fail("unsupported contract expression %s (%T)", exprString(e), e)
	return nil
}

func (env *specEnv) ident(id *ast.Ident) SV {
	x := env.x
	if t, ok := env.bound[id.Name]; ok {
		return t
	}
	if v, ok := env.vars[id.Name]; ok {
		return v
	}
	switch id.Name {
	case "true":
		return tTrue
	case "false":
		return tFalse
	case "nil":
		t := env.info.Types[id].Type
		if t == nil || t == types.Typ[types.UntypedNil] {
			return intLit(0) // refined at comparison sites
		}
		return x.enc.zero(t)
	}
	obj := env.info.Uses[id]
	return env.object(obj, id.Name)
}

func (env *specEnv) object(obj types.Object, name string) SV {
	x := env.x
	switch o := obj.(type) {
	case *types.Const:
		return x.enc.constant(o.Val(), o.Type())
	case *types.Var:
		if o.Pkg() != nil && o.Parent() == o.Pkg().Scope() {
			sp := x.prog.Package(o.Pkg())
			if sp != nil {
				if g, ok := sp.Members[o.Name()].(*ssa.Global); ok {
					return x.load(env.st, x.globalPtr(g))
				}
			}
		}
		env.fail("%s variable %s is not available at this point of the code (the clause names a local or a loop index the code no longer has there)", staleMark, name)
	case *types.Func:
		fn := x.prog.FuncValue(o)
		if fn == nil {
			env.fail("no ssa function for %s", name)
		}
		return &ClosV{fn: fn}
	case *types.Nil:
		return intLit(0)
	}
	env.fail("unresolved identifier %s", name)
	return nil
}

func (env *specEnv) selector(e *ast.SelectorExpr) SV {
	x := env.x
	sel, ok := env.info.Selections[e]
	if !ok {
		// qualified identifier
		obj := env.info.Uses[e.Sel]
		return env.object(obj, exprString(e))
	}
	switch sel.Kind() {
	case types.FieldVal:
		recv := env.eval(e.X)
		return env.fieldPath(recv, env.typeOf(e.X), sel.Index())
	case types.MethodVal:
		fn := x.prog.MethodValue(sel)
		recv := env.eval(e.X)
		if fn == nil {
			// interface method value
			return &ClosV{fn: nil, recv: recv}
		}
		return &ClosV{fn: fn, recv: recv}
	}
	env.fail("unsupported selector %s", exprString(e))
	return nil
}

// fieldPath follows a (possibly embedded) field selection from v of type t.
func (env *specEnv) fieldPath(v SV, t types.Type, index []int) SV {
	x := env.x
	cur := v
	ct := t
	for _, i := range index {
		if pt, ok := ct.Underlying().(*types.Pointer); ok {
			p := x.ptrOf(cur, ct)
			np := *p
			np.path = append(append([]int{}, p.path...), i)
			ft := pt.Elem().Underlying().(*types.Struct).Field(i).Type()
			cur = x.load(env.st, &np)
			ct = ft
			continue
		}
		st, ok := ct.Underlying().(*types.Struct)
		if !ok {
			env.fail("field selection on non-struct %s", ct)
		}
		switch c := cur.(type) {
		case *PtrV:
			np := *c
			np.path = append(append([]int{}, c.path...), i)
			cur = x.load(env.st, &np)
		case Term:
			cur = x.enc.structField(ct, c, i)
		}
		ct = st.Field(i).Type()
	}
	return cur
}

func (env *specEnv) binary(e *ast.BinaryExpr) SV {
	x := env.x
	switch e.Op {
	case token.LAND:
		return mkAnd(env.evalBool(e.X), env.evalBool(e.Y))
	case token.LOR:
		return mkOr(env.evalBool(e.X), env.evalBool(e.Y))
	}
	xt, yt := env.typeOf(e.X), env.typeOf(e.Y)
	// comparisons with nil
	if e.Op == token.EQL || e.Op == token.NEQ {
		var r Term
		switch {
		case isNilExpr(e.Y):
			r = env.isNil(env.eval(e.X), xt)
		case isNilExpr(e.X):
			r = env.isNil(env.eval(e.Y), yt)
		default:
			a, b := env.eval(e.X), env.eval(e.Y)
			r = x.equal(env.fr, a, b, xt, yt)
		}
		if e.Op == token.NEQ {
			return mkNot(r)
		}
		return r
	}
	a, b := env.evalTerm(e.X), env.evalTerm(e.Y)
	t := xt
	if bt, ok := t.Underlying().(*types.Basic); ok && bt.Info()&types.IsUntyped != 0 {
		t = yt
	}
	switch {
	case isFloat(t):
		switch e.Op {
		case token.LSS, token.LEQ, token.GTR, token.GEQ:
			return x.enc.floatCmp(e.Op, a, b)
		}
		if r, ok := x.enc.floatArith(e.Op, a, b); ok {
			return r
		}
	case isString(t):
		switch e.Op {
		case token.ADD:
			return app(SStr, "strcat", a, b)
		case token.LSS:
			return app(SBool, "strlt", a, b)
		case token.GTR:
			return app(SBool, "strlt", b, a)
		case token.LEQ:
			return mkNot(app(SBool, "strlt", b, a))
		case token.GEQ:
			return mkNot(app(SBool, "strlt", a, b))
		}
	default:
		if _, _, ok := intInfo(t); ok {
			switch e.Op {
			case token.LSS, token.LEQ, token.GTR, token.GEQ:
				return x.enc.intCmp(e.Op, a, b, t)
			}
			if x.enc.bv {
				if r, ok := x.enc.intArith(e.Op, a, b, t); ok {
					return r
				}
			} else {
				// contracts use mathematical integers: no wrap
				switch e.Op {
				case token.ADD:
					return app(SInt, "+", a, b)
				case token.SUB:
					return app(SInt, "-", a, b)
				case token.MUL:
					return app(SInt, "*", a, b)
				case token.QUO:
					return app(SInt, "tdiv", a, b)
				case token.REM:
					return app(SInt, "tmod", a, b)
				case token.OR, token.AND, token.XOR, token.AND_NOT:
					// same opaque symbol as the code translation uses in Int mode
					fn := "bitop_" + sanitize(e.Op.String())
					if !x.enc.declared[fn] {
						x.enc.declared[fn] = true
						x.vc.decl(fmt.Sprintf("(declare-fun %s (Int Int) Int)", fn))
					}
					return app(SInt, fn, a, b)
				}
			}
		}
	}
	env.fail("unsupported binary operation %s on %s", e.Op, t)
	return nil
}

func isNilExpr(e ast.Expr) bool {
	id, ok := ast.Unparen(e).(*ast.Ident)
	return ok && id.Name == "nil"
}

func (env *specEnv) isNil(v SV, t types.Type) Term {
	x := env.x
	if isErrorType(t) {
		return mkEq(x.asTerm(v, t), intLit(0))
	}
	switch t.Underlying().(type) {
	case *types.Interface:
		tv := x.asTerm(v, t)
		return T(SBool, "((_ is ANil) "+tv.S+")")
	case *types.Slice:
		tv := x.asTerm(v, t)
		return mkEq(app(SInt, "sbase", tv), intLit(0))
	case *types.Pointer:
		if p, ok := v.(*PtrV); ok {
			if p.nonNil {
				return tFalse
			}
			r, ok := x.ptrTerm(p)
			if !ok {
				return tFalse
			}
			return mkEq(r, intLit(0))
		}
	case *types.Signature:
		if _, ok := v.(*ClosV); ok {
			return tFalse
		}
	}
	return mkEq(x.asTerm(v, t), intLit(0))
}

func (env *specEnv) index(e *ast.IndexExpr) SV {
	x := env.x
	xt := env.typeOf(e.X)
	switch u := xt.Underlying().(type) {
	case *types.Slice:
		s := env.evalTerm(e.X)
		i := x.toLen(env.evalTerm(e.Index), env.typeOf(e.Index))
		return x.elemRead(env.st, s, i, u.Elem())
	case *types.Map:
		m := env.evalTerm(e.X)
		k := env.evalTerm(e.Index)
		v, _ := x.mapRead(env.st, m, k, u)
		return v
	case *types.Basic:
		s := env.evalTerm(e.X)
		i := x.toLen(env.evalTerm(e.Index), env.typeOf(e.Index))
		return app(x.enc.intSortW(8), "strat", s, i)
	}
	env.fail("unsupported index expression %s", exprString(e))
	return nil
}

func ghostName(fun ast.Expr) (string, []ast.Expr) {
	switch f := fun.(type) {
	case *ast.Ident:
		return f.Name, nil
	case *ast.IndexExpr:
		if id, ok := f.X.(*ast.Ident); ok {
			return id.Name, []ast.Expr{f.Index}
		}
	case *ast.IndexListExpr:
		if id, ok := f.X.(*ast.Ident); ok {
			return id.Name, f.Indices
		}
	}
	return "", nil
}

var ghostBuiltins = map[string]bool{
	"old": true, "implies": true, "iff": true, "ite": true, "is": true, "as": true, "errIs": true,
	"fresh": true, "ncalls": true, "callarg": true, "callret": true, "firstret": true, "forall": true, "exists": true,
	"pendingErr": true, "pendingFailed": true, "outCount": true, "outFirst": true, "outLast": true, "ctxDone": true, "allocated": true, "sameSlice": true, "sameFloat": true, "sameVal": true, "sameBase": true, "freshBase": true, "present": true,
	"deferActive": true, "deferVal": true, "deferObj": true, "dynret": true, "mathInt": true, "fitsInt64": true, "fitsInt32": true,
	"strLen": true, "boolToInt": true, "uninterp": true, "loopEntry": true, "allocatedBeforeLoop": true, "isNaN": true, "isInf": true,
	"ratTextOK": true, "decimalFits": true, "decimalValue": true,
	"toFloat": true, "exactCmpIF": true, "errIsCtx": true, "roundHalfAway": true, "truncF": true, "f2iInRange64": true, "f2iTrunc": true,
}

func (env *specEnv) call(e *ast.CallExpr) SV {
	x := env.x
	// conversions
	if tv, ok := env.info.Types[e.Fun]; ok && tv.IsType() {
		return env.conversion(e, tv.Type)
	}
	name, targs := ghostName(e.Fun)
	if name != "" && ghostBuiltins[name] {
		if obj := env.info.Uses[identOf(e.Fun)]; obj != nil && obj.Pkg() != nil {
			// only intercept if the function is declared in a *_verif.go file (ghost)
			return env.ghost(name, targs, e)
		}
	}
	// builtins
	if id, ok := e.Fun.(*ast.Ident); ok {
		if _, isB := env.info.Uses[id].(*types.Builtin); isB {
			return env.builtin(id.Name, e)
		}
	}
	// function / method call: evaluate through the pure call machinery
	var callee *ssa.Function
	var args []SV
	var recvIface SV
	var ifaceMethod *types.Func
	switch f := ast.Unparen(e.Fun).(type) {
	case *ast.SelectorExpr:
		if sel, ok := env.info.Selections[f]; ok && sel.Kind() == types.MethodVal {
			recv := env.eval(f.X)
			rt := env.typeOf(f.X)
			if isInterface(sel.Recv()) && !isErrorType(sel.Recv()) || isErrorType(sel.Recv()) {
				recvIface = recv
				ifaceMethod = sel.Obj().(*types.Func)
			} else {
				callee = x.prog.MethodValue(sel)
				if mf, ok := sel.Obj().(*types.Func); ok && len(sel.Index()) > 1 {
					if declared := x.prog.FuncValue(mf); declared != nil {
						callee = declared // promoted method: call the declared method on the embedded part
					}
				}
				// adjust receiver for implicit address-of / deref and embedding
				recv = env.adjustRecv(recv, rt, sel)
				args = append(args, recv)
			}
		} else {
			obj, _ := env.info.Uses[f.Sel].(*types.Func)
			if obj == nil {
				env.fail("cannot resolve call %s", exprString(e))
			}
			callee = x.prog.FuncValue(obj)
			if callee == nil {
				env.fail("no ssa function for %s", obj.FullName())
			}
		}
	case *ast.Ident:
		obj, _ := env.info.Uses[f].(*types.Func)
		if obj == nil {
			// calling a function-typed variable
			fv := env.eval(f)
			for _, a := range e.Args {
				args = append(args, env.eval(a))
			}
			sig := env.typeOf(f).Underlying().(*types.Signature)
			st := env.st.clone()
			x.pure++
			rets := x.callValue(env.fr, st, fv, args, sig, nil, token.NoPos)
			x.pure--
			return tupleOrSingle(rets)
		}
		callee = x.prog.FuncValue(obj)
	default:
		env.fail("unsupported call target %s", exprString(e.Fun))
	}
	var psig *types.Signature
	if ifaceMethod != nil {
		psig, _ = ifaceMethod.Type().(*types.Signature)
	} else if callee != nil {
		psig = callee.Signature
	}
	for i, a := range e.Args {
		v := env.eval(a)
		// a concrete argument for an interface parameter is boxed, as the compiler does
		if psig != nil && i < psig.Params().Len() && !(psig.Variadic() && i >= psig.Params().Len()-1) {
			pt, at := psig.Params().At(i).Type(), env.typeOf(a)
			if _, isIface := pt.Underlying().(*types.Interface); isIface && at != nil && !isErrorType(pt) {
				if _, argIface := at.Underlying().(*types.Interface); !argIface {
					if b, isBasic := at.(*types.Basic); !isBasic || b.Kind() != types.UntypedNil {
						if t, ok := v.(Term); ok {
							v = x.makeInterface(t, at)
						}
					}
				}
			}
		}
		args = append(args, v)
	}
	st := env.st.clone()
	x.pure++
	defer func() { x.pure-- }()
	if ifaceMethod != nil {
		rets := x.invoke(env.fr, st, recvIface, ifaceMethod, args, token.NoPos)
		return tupleOrSingle(rets)
	}
	if callee == nil {
		env.fail("cannot resolve callee of %s", exprString(e))
	}
	// generic instantiation
	if inst, ok := env.info.Instances[identOf(e.Fun)]; ok && callee.TypeParams() != nil && callee.TypeParams().Len() > 0 {
		var ta []types.Type
		for i := 0; i < inst.TypeArgs.Len(); i++ {
			ta = append(ta, inst.TypeArgs.At(i))
		}
		_ = ta
		env.fail("generic spec function calls are not supported: %s", exprString(e))
	}
	rets := x.callStatic(env.fr, st, callee, args, nil, token.NoPos)
	return tupleOrSingle(rets)
}

func tupleOrSingle(rets []SV) SV {
	switch len(rets) {
	case 0:
		return tTrue
	case 1:
		return rets[0]
	}
	return TupleV(rets)
}

func identOf(e ast.Expr) *ast.Ident {
	switch f := ast.Unparen(e).(type) {
	case *ast.Ident:
		return f
	case *ast.IndexExpr:
		return identOf(f.X)
	case *ast.IndexListExpr:
		return identOf(f.X)
	case *ast.SelectorExpr:
		return f.Sel
	}
	return nil
}

// adjustRecv navigates embedded fields and pointer/value receiver adjustments.
func (env *specEnv) adjustRecv(recv SV, rt types.Type, sel *types.Selection) SV {
	x := env.x
	idx := sel.Index()
	cur, ct := recv, rt
	if len(idx) > 1 {
		// embedded path: all but last are fields
		for _, i := range idx[:len(idx)-1] {
			if pt, ok := ct.Underlying().(*types.Pointer); ok {
				p := x.ptrOf(cur, ct)
				np := *p
				np.path = append(append([]int{}, p.path...), i)
				ft := pt.Elem().Underlying().(*types.Struct).Field(i).Type()
				if _, fieldIsPtr := ft.Underlying().(*types.Pointer); fieldIsPtr {
					lv := x.load(env.st, &np)
					x.embeddedNonNil(&np, lv)
					cur = lv
					ct = ft
				} else {
					cur = &np
					ct = types.NewPointer(ft)
				}
			} else {
				c := x.asTerm(cur, ct)
				cur = x.enc.structField(ct, c, i)
				ct = ct.Underlying().(*types.Struct).Field(i).Type()
			}
		}
	}
	fn := sel.Obj().(*types.Func)
	want := fn.Type().(*types.Signature).Recv().Type()
	_, wantPtr := want.Underlying().(*types.Pointer)
	_, havePtr := ct.Underlying().(*types.Pointer)
	switch {
	case wantPtr == havePtr:
		return cur
	case havePtr && !wantPtr:
		p := x.ptrOf(cur, ct)
		return x.load(env.st, p)
	default:
		env.fail("cannot take the address of a value receiver in a contract")
	}
	return cur
}

func (env *specEnv) conversion(e *ast.CallExpr, to types.Type) SV {
	x := env.x
	if isNilExpr(e.Args[0]) {
		return x.enc.zero(to)
	}
	from := env.typeOf(e.Args[0])
	v := env.eval(e.Args[0])
	if b, ok := from.Underlying().(*types.Basic); ok && b.Info()&types.IsUntyped != 0 {
		from = types.Default(from)
	}
	_, _, fi := intInfo(from)
	_, _, ti := intInfo(to)
	switch {
	case fi && ti:
		if x.enc.bv {
			return x.enc.convertInt(x.asTerm(v, from), from, to)
		}
		return v // mathematical: value preserved in contracts
	case fi && isFloat(to):
		return x.enc.intToFloat(x.asTerm(v, from), from, x.enc.sortOf(to))
	case isFloat(from) && ti:
		return x.enc.floatToInt(x.asTerm(v, from), to)
	case isInterface(to) && !isInterface(from):
		return x.makeInterface(v, from)
	case isErrorType(from) && isInterface(to) && !isErrorType(to):
		t := x.asTerm(v, from)
		return mkIte(mkEq(t, intLit(0)), T(SAny, "ANil"), app(SAny, "AErr", t))
	}
	if isString(to) {
		if sl, ok := from.Underlying().(*types.Slice); ok {
			s := x.asTerm(v, from)
			base, off, ln, _ := x.sliceParts(s)
			es := x.enc.sortOf(sl.Elem())
			inner := mkSelect(x.get(env.st, x.elemsKey(es)), base, arraySort(x.enc.isz(), es))
			return x.ufS("strofbytes_"+sanitize(string(es)), SStr, inner, off, ln)
		}
	}
	if x.enc.sortOf(from) == x.enc.sortOf(to) {
		return v
	}
	env.fail("unsupported conversion %s -> %s", from, to)
	return nil
}

func (env *specEnv) builtin(name string, e *ast.CallExpr) SV {
	x := env.x
	switch name {
	case "len", "cap":
		t := env.typeOf(e.Args[0])
		v := env.evalTerm(e.Args[0])
		switch u := t.Underlying().(type) {
		case *types.Slice:
			if name == "cap" {
				return app(x.enc.isz(), "scap", v)
			}
			return app(x.enc.isz(), "slen", v)
		case *types.Basic:
			return app(x.enc.isz(), "strlen", v)
		case *types.Map:
			return x.mapLen(env.st, v, u)
		}
	case "min", "max":
		a, b := env.evalTerm(e.Args[0]), env.evalTerm(e.Args[1])
		t := env.typeOf(e.Args[0])
		var lt Term
		if isFloat(t) {
			lt = app(SBool, "fp.lt", a, b)
		} else {
			lt = x.enc.intCmp(token.LSS, a, b, t)
		}
		if name == "min" {
			return mkIte(lt, a, b)
		}
		return mkIte(lt, b, a)
	}
	env.fail("unsupported builtin %s in contract", name)
	return nil
}

// calleeKey resolves a function reference expression (exec.f, f, pkg.f) to
// the ghost call-trace key.
func (env *specEnv) calleeKey(e ast.Expr) string {
	x := env.x
	switch f := ast.Unparen(e).(type) {
	case *ast.SelectorExpr:
		if sel, ok := env.info.Selections[f]; ok {
			if fn := x.prog.MethodValue(sel); fn != nil {
				return funcName(fn)
			}
			return "iface." + sel.Obj().Name()
		}
		if obj, ok := env.info.Uses[f.Sel].(*types.Func); ok {
			if fn := x.prog.FuncValue(obj); fn != nil {
				return funcName(fn)
			}
			return obj.FullName()
		}
	case *ast.Ident:
		if obj, ok := env.info.Uses[f].(*types.Func); ok {
			if fn := x.prog.FuncValue(obj); fn != nil {
				return funcName(fn)
			}
		}
		if v, ok := env.vars[f.Name]; ok {
			// a function-typed parameter: key by parameter name
			_ = v
			return "param." + f.Name
		}
	}
	env.fail("cannot resolve function reference %s", exprString(e))
	return ""
}

func (env *specEnv) ghost(name string, targs []ast.Expr, e *ast.CallExpr) SV {
	x := env.x
	if v, ok := env.bigGhost(name, e); ok {
		return v
	}
	switch name {
	case "old":
		if env.old == nil {
			env.fail("old() is not available here")
		}
		c := *env
		c.st = env.old
		if env.ovars != nil {
			c.vars = env.ovars
		}
		return c.eval(e.Args[0])
	case "allocatedBeforeLoop":
		// the object (or backing array) x refers to now existed when the loop was entered
		if env.loopPre == nil {
			env.fail("allocatedBeforeLoop() is only available in loop clauses")
		}
		r := x.asTerm(env.eval(e.Args[0]), env.typeOf(e.Args[0]))
		switch r.Sort {
		case SSlice:
			r = app(SInt, "sbase", r)
		case SAny:
			r = app(SInt, "anyref", r)
		}
		return app(SBool, "<", r, x.get(env.loopPre, x.allocKey()))
	case "loopEntry":
		if env.loopPre == nil {
			env.fail("loopEntry() is only available in loop clauses")
		}
		c := *env
		c.st = env.loopPre
		c.vars = env.loopVars
		return c.eval(e.Args[0])
	case "implies":
		return mkImplies(env.evalBool(e.Args[0]), env.evalBool(e.Args[1]))
	case "iff":
		return mkEq(env.evalBool(e.Args[0]), env.evalBool(e.Args[1]))
	case "ite":
		c := env.evalBool(e.Args[0])
		a, b := env.evalTerm(e.Args[1]), env.evalTerm(e.Args[2])
		if a.Sort != b.Sort {
			t := env.typeOf(e)
			if isInterface(t) {
				if a.Sort != SAny {
					a = x.makeInterface(a, env.typeOf(e.Args[1]))
				}
				if b.Sort != SAny {
					b = x.makeInterface(b, env.typeOf(e.Args[2]))
				}
			}
		}
		return mkIte(c, a, b)
	case "is", "as":
		if len(targs) != 1 {
			env.fail("%s needs one type argument", name)
		}
		t := env.info.Types[targs[0]].Type
		v := env.evalTerm(e.Args[0])
		if v.Sort != SAny {
			v = x.makeInterface(v, env.typeOf(e.Args[0]))
		}
		c, pv := x.typeTest(v, t)
		if name == "is" {
			return c
		}
		return pv
	case "errIsCtx":
		return x.errorsIs(env.evalTerm(e.Args[0]), T(SInt, "sent_ctx"))
	case "errIs":
		a, b := env.evalTerm(e.Args[0]), env.evalTerm(e.Args[1])
		return x.errorsIs(a, b)
	case "fresh", "allocated":
		v := env.eval(e.Args[0])
		r := x.asTerm(v, env.typeOf(e.Args[0]))
		if r.Sort == SSlice {
			r = app(SInt, "sbase", r)
		}
		if env.old == nil {
			env.fail("fresh() needs a pre-state")
		}
		oldAlloc := x.get(env.old, x.allocKey())
		if name == "fresh" {
			return mkAnd(app(SBool, ">=", r, oldAlloc), app(SBool, "<", r, x.get(env.st, x.allocKey())))
		}
		return mkAnd(app(SBool, "<", r, x.get(env.st, x.allocKey())), app(SBool, "<=", intLit(0), r))
	case "ncalls":
		k := x.callCountKey(env.calleeKey(e.Args[0]))
		return x.get(env.st, k)
	case "firstret":
		fk := env.calleeKey(e.Args[0])
		t := env.typeOf(e)
		which := ""
		if tv := env.info.Types[e.Args[1]]; tv.Value != nil {
			which = tv.Value.ExactString()
		}
		return x.get(env.st, x.callTraceKey(fk, "first", which, x.enc.sortOf(t), t))
	case "callarg", "callret":
		fk := env.calleeKey(e.Args[0])
		t := env.typeOf(e)
		var which string
		if tv := env.info.Types[e.Args[1]]; tv.Value != nil {
			if tv.Value.Kind() == constant.String {
				which = constant.StringVal(tv.Value)
			} else {
				which = tv.Value.ExactString()
			}
		}
		k := x.callTraceKey(fk, name[4:], which, x.enc.sortOf(t), t)
		return x.get(env.st, k)
	case "dynret":
		// dynret[T](f, i, args...): result i of calling function value f on args
		// (the same uninterpreted symbol the engine uses for the real call)
		ft := env.typeOf(e.Args[0])
		sig, ok := ft.Underlying().(*types.Signature)
		if !ok {
			env.fail("dynret: first argument is not a function value")
		}
		idx := 0
		if tv := env.info.Types[e.Args[1]]; tv.Value != nil {
			idx = atoi(tv.Value.ExactString())
		}
		nm := "dyn_" + sanitize(sig.String())
		if len(nm) > 70 {
			nm = nm[:70]
		}
		targs := []Term{x.asTerm(env.eval(e.Args[0]), ft)}
		for i, a := range e.Args[2:] {
			v := env.eval(a)
			at := env.typeOf(a)
			tv := x.asTerm(v, at)
			if i < sig.Params().Len() && isInterface(sig.Params().At(i).Type()) && !isErrorType(sig.Params().At(i).Type()) && tv.Sort != SAny {
				tv = x.makeInterface(v, at)
			}
			targs = append(targs, tv)
		}
		return x.ufS(fmt.Sprintf("%s_r%d", nm, idx), x.enc.sortOf(env.typeOf(e)), targs...)
	case "forall", "exists":
		fl, ok := e.Args[0].(*ast.FuncLit)
		if !ok {
			env.fail("%s needs a function literal", name)
		}
		c := *env
		c.bound = map[string]Term{}
		for k, v := range env.bound {
			c.bound[k] = v
		}
		var decls []string
		var ranges []Term
		for _, f := range fl.Type.Params.List {
			t := env.info.Types[f.Type].Type
			for _, nm := range f.Names {
				x.vc.nfresh++
				bn := fmt.Sprintf("q_%s!%d", nm.Name, x.vc.nfresh)
				s := x.enc.sortOf(t)
				c.bound[nm.Name] = T(s, bn)
				decls = append(decls, fmt.Sprintf("(%s %s)", bn, s))
				ranges = append(ranges, x.enc.rangeFact(T(s, bn), t))
			}
		}
		ret, ok := fl.Body.List[len(fl.Body.List)-1].(*ast.ReturnStmt)
		if !ok || len(fl.Body.List) != 1 {
			env.fail("%s body must be a single return statement", name)
		}
		x.vc.quant++
		body := func() Term {
			defer func() { x.vc.quant-- }()
			return c.evalBool(ret.Results[0])
		}()
		if name == "forall" {
			if x.recordForalls && len(decls) == 1 && len(fl.Type.Params.List) == 1 && len(fl.Type.Params.List[0].Names) == 1 {
				// an assumed precondition: remember how to instantiate it (instHints)
				bname := fl.Type.Params.List[0].Names[0].Name
				btype := env.info.Types[fl.Type.Params.List[0].Type].Type
				if bs := x.enc.sortOf(btype); bs == x.enc.isz() {
					cc := c
					cc.st = env.st.clone() // the state the fact was assumed in (later execution mutates env.st)
					x.assumedForalls = append(x.assumedForalls, func(v Term) Term {
						c2 := cc
						c2.bound = map[string]Term{}
						for k, bv := range cc.bound {
							c2.bound[k] = bv
						}
						c2.bound[bname] = v
						x.pure++
						defer func() { x.pure-- }()
						return mkImplies(x.enc.rangeFact(v, btype), c2.evalBool(ret.Results[0]))
					})
				}
			}
			return T(SBool, fmt.Sprintf("(forall (%s) %s)", strings.Join(decls, " "), mkImplies(mkAnd(ranges...), body).S))
		}
		return T(SBool, fmt.Sprintf("(exists (%s) %s)", strings.Join(decls, " "), mkAnd(append(ranges, body)...).S))
	case "outCount":
		return x.get(env.st, x.scalarKey("ghost:outCount", x.enc.isz(), func() Term { return x.ic(0) }))
	case "outFirst":
		return x.get(env.st, x.scalarKey("ghost:outFirst", SAny, func() Term { return T(SAny, "ANil") }))
	case "outLast":
		return x.get(env.st, x.scalarKey("ghost:outLast", SAny, func() Term { return T(SAny, "ANil") }))
	case "pendingErr":
		return x.get(env.st, x.pendingErrKey())
	case "pendingFailed":
		return x.get(env.st, x.pendingFailedKey())
	case "ctxDone":
		return x.get(env.st, x.ctxDoneKey())
	case "deferActive", "deferVal", "deferObj":
		var which string
		if tv := env.info.Types[e.Args[0]]; tv.Value != nil {
			which = constant.StringVal(tv.Value)
		}
		if name == "deferObj" {
			k, ok := x.findDeferGhost(which, true)
			if !ok {
				return intLit(0)
			}
			return x.get(env.st, strings.TrimSuffix(k, ":active")+":ref")
		}
		k, ok := x.findDeferGhost(which, name == "deferActive")
		if !ok {
			if name == "deferActive" {
				return tFalse
			}
			// no deferred restore exists (any more): the value is irrelevant because
			// deferActive is false; give it an arbitrary value of the right type
			return x.ufS("nodefer_"+sanitize(which), x.enc.sortOf(env.typeOf(e)))
		}
		return x.get(env.st, k)
	case "sameFloat":
		return app(SBool, "=", env.evalTerm(e.Args[0]), env.evalTerm(e.Args[1]))
	case "present":
		// an interface value that holds something: neither nil nor a typed nil pointer
		a := env.evalTerm(e.Args[0])
		if a.Sort != SAny {
			return mkNot(mkEq(a, intLit(0)))
		}
		return mkAnd(mkNot(mkEq(a, T(SAny, "ANil"))), mkImplies(app(SBool, "(_ is APtr)", a), mkNot(mkEq(app(SInt, "aptr", a), intLit(0)))))
	case "sameBase":
		// the two slices share their backing array (or are both nil/empty-based)
		a, b := env.evalTerm(e.Args[0]), env.evalTerm(e.Args[1])
		return mkEq(app(SInt, "sbase", a), app(SInt, "sbase", b))
	case "freshBase":
		// the backing array was allocated during this call
		a := env.evalTerm(e.Args[0])
		return app(SBool, "<=", x.get(x.entry, x.allocKey()), app(SInt, "sbase", a))
	case "sameSlice", "sameVal":
		a, b := env.evalTerm(e.Args[0]), env.evalTerm(e.Args[1])
		return mkEq(a, b)
	case "strLen":
		return app(x.enc.isz(), "strlen", env.evalTerm(e.Args[0]))
	case "isNaN":
		return app(SBool, "fp.isNaN", env.evalTerm(e.Args[0]))
	case "isInf":
		return app(SBool, "fp.isInfinite", env.evalTerm(e.Args[0]))
	case "toFloat":
		return x.enc.intToFloat(env.evalTerm(e.Args[0]), env.typeOf(e.Args[0]), SF64)
	case "truncF":
		return app(SF64, "fp.roundToIntegral RTZ", env.evalTerm(e.Args[0]))
	case "roundHalfAway":
		return app(SF64, "fp.roundToIntegral RNA", env.evalTerm(e.Args[0]))
	case "f2iTrunc":
		return x.enc.floatToInt(env.evalTerm(e.Args[0]), types.Typ[types.Int64])
	case "f2iInRange64":
		f := env.evalTerm(e.Args[0])
		lo := x.enc.floatConst(-9223372036854775808.0, SF64)
		hi := x.enc.floatConst(9223372036854775808.0, SF64)
		return mkAnd(app(SBool, "fp.geq", f, lo), app(SBool, "fp.lt", f, hi))
	case "fitsInt64", "fitsInt32":
		// argument is an arithmetic expression a op b over machine ints; in
		// Int mode contracts are mathematical, so this is a range test.
		v := env.evalTerm(e.Args[0])
		w := 64
		if name == "fitsInt32" {
			w = 32
		}
		if x.enc.bv {
			env.fail("%s is only available in int mode", name)
		}
		lo, hi := intRange(w, true)
		return mkAnd(app(SBool, "<=", bigLit(lo.String()), v), app(SBool, "<=", v, bigLit(hi.String())))
	case "mathInt":
		return x.enc.toMathInt(env.evalTerm(e.Args[0]), env.typeOf(e.Args[0]))
	case "boolToInt":
		return mkIte(env.evalBool(e.Args[0]), x.ic(1), x.ic(0))
	case "uninterp":
		// uninterp[T]("name", args...) : an uninterpreted function symbol
		var fname string
		if tv := env.info.Types[e.Args[0]]; tv.Value != nil {
			fname = constant.StringVal(tv.Value)
		}
		var args []Term
		for _, a := range e.Args[1:] {
			args = append(args, env.evalTerm(a))
		}
		t := env.typeOf(e)
		if strings.HasPrefix(fname, "builder_") || strings.HasPrefix(fname, "ext_") || strings.HasPrefix(fname, "jn") {
			return x.ufS(fname, x.enc.sortOf(t), args...)
		}
		return x.ufS("spec_"+sanitize(fname), x.enc.sortOf(t), args...)
	case "exactCmpIF":
		// exactCmpIF(i int64, f float64) int : sign of (i - f) over the reals, bv mode
		return env.exactCmpIF(env.evalTerm(e.Args[0]), env.evalTerm(e.Args[1]))
	}
	env.fail("unknown ghost function %s", name)
	return nil
}

// exactCmpIF compares an int64 with a finite-or-infinite double exactly,
// inside BV+FP (see DESIGN §3.3). Result sort: int.
func (env *specEnv) exactCmpIF(i, f Term) Term {
	x := env.x
	if !x.enc.bv {
		env.fail("exactCmpIF needs bv mode")
	}
	lo := x.enc.floatConst(-9223372036854775808.0, SF64)
	hi := x.enc.floatConst(9223372036854775808.0, SF64)
	// integer part of f (in range here), and the same value back as a double:
	// exact, because the integer part of a double is a double
	ti := app(x.enc.intSortW(64), "(_ fp.to_sbv 64) RTZ", f)
	tr := app(SF64, "(_ to_fp 11 53) RNE", ti)
	frac := app(SF64, "fp.sub RNE", f, tr)
	zero := T(SF64, "(_ +zero 11 53)")
	m1, z, p1 := x.ic(-1), x.ic(0), x.ic(1)
	inRange := mkIte(app(SBool, "bvslt", i, ti), m1,
		mkIte(app(SBool, "bvsgt", i, ti), p1,
			mkIte(app(SBool, "fp.gt", frac, zero), m1, mkIte(app(SBool, "fp.lt", frac, zero), p1, z))))
	return mkIte(app(SBool, "fp.geq", f, hi), m1, mkIte(app(SBool, "fp.lt", f, lo), p1, inRange))
}

func atoi(s string) int {
	n, _ := strconv.Atoi(s)
	return n
}
