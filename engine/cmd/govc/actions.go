package main

// Mechanical extraction of the semantic actions of the goyacc-generated parser.
//
// The generated driver (*pathParserImpl).Parse is one function: an LALR table
// interpreter whose "switch pathnt" holds, verbatim, the Go code of every
// grammar action. The driver itself (tables, stack discipline, error recovery)
// is outside the reach of the verifier, but the actions are ordinary
// straight-line Go. On every run this file turns each
//
//	case N:
//		pathDollar = pathS[pathpt-K : pathpt+1]
//		{ action }
//
// of /repo's current grammar.go into a function
//
//	func pathAction_N(pathlex pathLexer, pathDollar []pathSymType, pathStale pathSymType) pathSymType {
//		pathVAL := pathDollar[1]   // $$ defaults to $1; pathStale when the rule is empty
//		{ action }                  // the text of the case, byte for byte
//		return pathVAL
//	}
//
// in an overlay file of package parser that exists only in memory (it is handed
// to go/packages as an overlay and never written to /repo), and derives the
// contract of each action from grammar.y: rule N's right-hand side gives the
// meaning of pathDollar[1..K], the %type declarations give the union field of
// every symbol, and the "//@ grammar nonnil" directives of the contract file
// name the symbols whose value is never nil.
//
// What the extraction drops, and therefore leaves trusted: the driver runs
// the action of rule N exactly when it reduces by rule N, with pathDollar[i]
// holding the value of the i-th right-hand-side symbol and the result stored
// as the value of the left-hand side. That rule N of grammar.y is case N of
// grammar.go is checked here: the number of right-hand-side symbols must
// equal K for every case, and the rule count must equal the table size.

import (
	"bytes"
	"fmt"
	"go/ast"
	"go/parser"
	"go/token"
	"os"
	"path/filepath"
	"regexp"
	"sort"
	"strconv"
	"strings"
)

type yRule struct {
	n      int
	lhs    string
	rhs    []string
	action bool
}

type yGrammar struct {
	rules []yRule           // rules[0] is rule 1
	typ   map[string]string // symbol -> union field
}

// parseY reads the declarations and rules of a yacc grammar (the subset of
// the syntax grammar.y uses: %token/%type <field> lists, rules with one
// optional trailing action per alternative, %prec, comments).
func parseY(src string) (*yGrammar, error) {
	g := &yGrammar{typ: map[string]string{}}
	parts := strings.SplitN(src, "\n%%", 3)
	if len(parts) < 2 {
		return nil, fmt.Errorf("grammar.y: no %%%% separator")
	}
	decl := parts[0]
	// strip the %{ … %} prologue and the %union
	if i := strings.Index(decl, "%}"); i >= 0 {
		decl = decl[i+2:]
	}
	declRe := regexp.MustCompile(`(?m)^%(token|type|left|right|nonassoc)\b`)
	idx := declRe.FindAllStringIndex(decl, -1)
	for k, loc := range idx {
		end := len(decl)
		if k+1 < len(idx) {
			end = idx[k+1][0]
		}
		body := decl[loc[0]:end]
		kw := strings.Fields(body)[0]
		if kw != "%token" && kw != "%type" {
			continue
		}
		m := regexp.MustCompile(`<(\w+)>`).FindStringSubmatch(body)
		if m == nil {
			continue
		}
		rest := body[strings.Index(body, ">")+1:]
		if j := strings.Index(rest, "\n%"); j >= 0 {
			rest = rest[:j]
		}
		for _, sym := range strings.Fields(rest) {
			if regexp.MustCompile(`^\w+$`).MatchString(sym) {
				g.typ[sym] = m[1]
			}
		}
	}
	// rules section: tokenise
	rs := parts[1]
	type tok struct{ kind, text string }
	var toks []tok
	for i := 0; i < len(rs); {
		c := rs[i]
		switch {
		case c == ' ' || c == '\t' || c == '\n' || c == '\r':
			i++
		case strings.HasPrefix(rs[i:], "/*"):
			j := strings.Index(rs[i+2:], "*/")
			if j < 0 {
				return nil, fmt.Errorf("grammar.y: unterminated comment")
			}
			i += j + 4
		case strings.HasPrefix(rs[i:], "//"):
			j := strings.IndexByte(rs[i:], '\n')
			if j < 0 {
				j = len(rs) - i
			}
			i += j
		case c == '{':
			depth, j := 0, i
			for ; j < len(rs); j++ {
				switch rs[j] {
				case '{':
					depth++
				case '}':
					depth--
				case '"', '`', '\'':
					q := rs[j]
					for j++; j < len(rs) && rs[j] != q; j++ {
						if rs[j] == '\\' && q != '`' {
							j++
						}
					}
				}
				if depth == 0 {
					break
				}
			}
			toks = append(toks, tok{"action", rs[i : j+1]})
			i = j + 1
		case c == '\'':
			j := i + 1
			for ; j < len(rs) && rs[j] != '\''; j++ {
				if rs[j] == '\\' {
					j++
				}
			}
			toks = append(toks, tok{"sym", rs[i : j+1]})
			i = j + 1
		case c == ':' || c == '|' || c == ';':
			toks = append(toks, tok{string(c), string(c)})
			i++
		case c == '%':
			j := i + 1
			for j < len(rs) && (rs[j] == '_' || rs[j] >= 'a' && rs[j] <= 'z') {
				j++
			}
			toks = append(toks, tok{"dir", rs[i:j]})
			i = j
		default:
			j := i
			for j < len(rs) && (rs[j] == '_' || rs[j] >= 'a' && rs[j] <= 'z' || rs[j] >= 'A' && rs[j] <= 'Z' || rs[j] >= '0' && rs[j] <= '9') {
				j++
			}
			if j == i {
				return nil, fmt.Errorf("grammar.y: unexpected character %q in the rules section", c)
			}
			toks = append(toks, tok{"sym", rs[i:j]})
			i = j
		}
	}
	n := 0
	for i := 0; i < len(toks); {
		if toks[i].kind != "sym" || i+1 >= len(toks) || toks[i+1].kind != ":" {
			return nil, fmt.Errorf("grammar.y: expected 'name:' at token %d (%q)", i, toks[i].text)
		}
		lhs := toks[i].text
		i += 2
		cur := yRule{lhs: lhs}
		flush := func() {
			n++
			cur.n = n
			g.rules = append(g.rules, cur)
			cur = yRule{lhs: lhs}
		}
	alt:
		for ; i < len(toks); i++ {
			switch toks[i].kind {
			case "sym":
				if cur.action {
					return nil, fmt.Errorf("grammar.y: rule for %s has a mid-rule action (not supported by the extraction)", lhs)
				}
				cur.rhs = append(cur.rhs, toks[i].text)
			case "action":
				cur.action = true
			case "dir": // %prec NAME
				i++
			case "|":
				flush()
			case ";":
				flush()
				i++
				break alt
			}
		}
	}
	return g, nil
}

type actionCase struct {
	n    int
	k    int
	body string // the block of the case, verbatim
	line int
}

// grammarCases extracts the cases of "switch pathnt" from grammar.go.
func grammarCases(file string) ([]actionCase, []string, error) {
	src, err := os.ReadFile(file)
	if err != nil {
		return nil, nil, err
	}
	fset := token.NewFileSet()
	f, err := parser.ParseFile(fset, file, src, parser.ParseComments)
	if err != nil {
		return nil, nil, err
	}
	var imports []string
	for _, im := range f.Imports {
		imports = append(imports, im.Path.Value)
	}
	var out []actionCase
	var sw *ast.SwitchStmt
	for _, d := range f.Decls {
		fd, ok := d.(*ast.FuncDecl)
		if !ok || fd.Name.Name != "Parse" || fd.Recv == nil {
			continue
		}
		ast.Inspect(fd.Body, func(n ast.Node) bool {
			if s, ok := n.(*ast.SwitchStmt); ok {
				if id, ok := s.Tag.(*ast.Ident); ok && id.Name == "pathnt" {
					sw = s
				}
			}
			return true
		})
	}
	if sw == nil {
		return nil, nil, fmt.Errorf("grammar.go: no 'switch pathnt' in the generated Parse method")
	}
	for _, st := range sw.Body.List {
		cc := st.(*ast.CaseClause)
		if len(cc.List) != 1 {
			continue
		}
		lit, ok := cc.List[0].(*ast.BasicLit)
		if !ok {
			continue
		}
		n, _ := strconv.Atoi(lit.Value)
		if len(cc.Body) < 1 {
			continue
		}
		// pathDollar = pathS[pathpt-K : pathpt+1]
		k := -1
		if as, ok := cc.Body[0].(*ast.AssignStmt); ok && len(as.Rhs) == 1 {
			if se, ok := as.Rhs[0].(*ast.SliceExpr); ok {
				if be, ok := se.Low.(*ast.BinaryExpr); ok {
					if l, ok := be.Y.(*ast.BasicLit); ok {
						k, _ = strconv.Atoi(l.Value)
					}
				}
			}
		}
		if k < 0 {
			return nil, nil, fmt.Errorf("grammar.go: case %d does not start with the pathDollar assignment", n)
		}
		var b bytes.Buffer
		for _, s := range cc.Body[1:] {
			b.Write(src[fset.Position(s.Pos()).Offset:fset.Position(s.End()).Offset])
			b.WriteByte('\n')
		}
		out = append(out, actionCase{n: n, k: k, body: b.String(), line: fset.Position(cc.Pos()).Line})
	}
	return out, imports, nil
}

// grammarDirectives reads the "//@ grammar …" lines of the parser contract file:
//
//	//@ grammar nonnil expr predicate …      symbols whose node value is never nil
//	//@ grammar props C03 C04                properties the action obligations count for
type grammarDirs struct {
	nonnil    map[string]bool
	props     string
	lexerInvs [][2]string // label, text of the declared invariants of type lexer
	// clauses attached to a rule by its shape: "lhs: sym sym" -> contract lines
	ruleClauses map[string][]string
	// further invariants of the value of a symbol: symbol -> (label, text over self)
	symInvs map[string][][2]string
}

func grammarDirectives(file string) grammarDirs {
	d := grammarDirs{nonnil: map[string]bool{}, props: "C03 C04", ruleClauses: map[string][]string{}, symInvs: map[string][][2]string{}}
	src, err := os.ReadFile(file)
	if err != nil {
		return d
	}
	for _, ln := range strings.Split(string(src), "\n") {
		ln = strings.TrimSpace(ln)
		if strings.HasPrefix(ln, "//@ typeinv lexer ") {
			_, label, text := parseClauseHead(strings.TrimSpace(strings.TrimPrefix(ln, "//@ typeinv lexer ")))
			d.lexerInvs = append(d.lexerInvs, [2]string{label, text})
			continue
		}
		if !strings.HasPrefix(ln, "//@ grammar ") {
			continue
		}
		fs := strings.Fields(strings.TrimPrefix(ln, "//@ grammar "))
		if len(fs) < 2 {
			continue
		}
		switch fs[0] {
		case "nonnil":
			for _, s := range fs[1:] {
				d.nonnil[s] = true
			}
		case "props":
			d.props = strings.Join(fs[1:], " ")
		case "inv":
			// grammar inv <symbol> <label>: <expr over self>   (self is the symbol's stack value)
			body := strings.TrimSpace(strings.TrimPrefix(ln, "//@ grammar inv "))
			sym, rest, _ := strings.Cut(body, " ")
			label, text, ok := strings.Cut(rest, ":")
			if ok {
				d.symInvs[sym] = append(d.symInvs[sym], [2]string{strings.TrimSpace(label), strings.TrimSpace(text)})
			}
		case "rule":
			// grammar rule <lhs>: <rhs…> :: <requires|ensures …>
			body := strings.TrimSpace(strings.TrimPrefix(ln, "//@ grammar rule "))
			shape, clause, ok := strings.Cut(body, "::")
			if ok {
				key := strings.Join(strings.Fields(shape), " ")
				d.ruleClauses[key] = append(d.ruleClauses[key], strings.TrimSpace(clause))
			}
		}
	}
	return d
}

// actionsOverlay builds the in-memory file. It returns nil (and no error) when
// the repository has no generated grammar.
func actionsOverlay(repo string) (string, []byte, error) {
	dir := filepath.Join(repo, "path", "parser")
	ysrc, err := os.ReadFile(filepath.Join(dir, "grammar.y"))
	if err != nil {
		return "", nil, nil
	}
	cases, imports, err := grammarCases(filepath.Join(dir, "grammar.go"))
	if err != nil {
		return "", nil, err
	}
	g, err := parseY(string(ysrc))
	if err != nil {
		return "", nil, err
	}
	dirs := grammarDirectives(filepath.Join(dir, "contracts_verif.go"))
	var b bytes.Buffer
	b.WriteString("//go:build verif\n\n// Extracted on the fly from grammar.go and grammar.y by govc (actions.go); never written to disk.\n\npackage parser\n\nimport (\n")
	for _, im := range imports {
		if im == `"fmt"` {
			continue
		}
		fmt.Fprintf(&b, "\t%s\n", im)
	}
	b.WriteString(")\n\nvar _ = strconv.Itoa\nvar _ ast.Node\n\n")
	sort.Slice(cases, func(i, j int) bool { return cases[i].n < cases[j].n })
	usedShapes := map[string]bool{}
	for _, c := range cases {
		if c.n < 1 || c.n > len(g.rules) {
			return "", nil, fmt.Errorf("grammar.go has an action for rule %d but grammar.y has %d rules: grammar.go is not generated from this grammar.y", c.n, len(g.rules))
		}
		r := g.rules[c.n-1]
		if len(r.rhs) != c.k {
			return "", nil, fmt.Errorf("rule %d (%s) has %d right-hand-side symbols in grammar.y but the generated action takes %d: grammar.go is not generated from this grammar.y", c.n, r.lhs, len(r.rhs), c.k)
		}
		if !r.action {
			return "", nil, fmt.Errorf("rule %d (%s) has no action in grammar.y but one in grammar.go", c.n, r.lhs)
		}
		name := fmt.Sprintf("pathAction_%d", c.n)
		fmt.Fprintf(&b, "// rule %d   %s: %s\n", c.n, r.lhs, strings.Join(r.rhs, " "))
		fmt.Fprintf(&b, "//@ func %s\n//@ props %s\n//@ requires stack: len(pathDollar) == %d\n", name, dirs.props, c.k+1)
		fmt.Fprintf(&b, "//@ requires lexer: is[*lexer](pathlex) && as[*lexer](pathlex) != nil\n")
		// an action may write the lexer it was handed (setResult, setPred, Error)
		// and grow the list it received as $1 in place
		mods := "as[*lexer](pathlex).*"
		if len(r.rhs) >= 1 {
			if f := g.typ[r.rhs[0]]; f == "elems" || f == "indexs" {
				mods += ", elems(pathDollar[1]." + f + ")"
			}
		}
		fmt.Fprintf(&b, "//@ modifies %s\n", mods)
		for _, ti := range dirs.lexerInvs {
			fmt.Fprintf(&b, "//@ requires lexer-%s: %s\n", ti[0], replaceIdent(ti[1], "self", "as[*lexer](pathlex)"))
		}
		for i, s := range r.rhs {
			field := g.typ[s]
			if !dirs.nonnil[s] {
				continue
			}
			switch field {
			case "value":
				fmt.Fprintf(&b, "//@ requires [%s] in-%d-%s: present(pathDollar[%d].%s)\n", dirs.props, i+1, s, i+1, field)
			case "method":
				fmt.Fprintf(&b, "//@ requires [%s] in-%d-%s: pathDollar[%d].%s != nil\n", dirs.props, i+1, s, i+1, field)
			case "elems", "indexs":
				fmt.Fprintf(&b, "//@ requires [%s] in-%d-%s: len(pathDollar[%d].%s) >= 1 && forall(func(i int) bool { return implies(0 <= i && i < len(pathDollar[%d].%s), present(pathDollar[%d].%s[i])) })\n", dirs.props, i+1, s, i+1, field, i+1, field, i+1, field)
			}
		}
		for i, sy := range r.rhs {
			for _, iv := range dirs.symInvs[sy] {
				fmt.Fprintf(&b, "//@ requires [%s] in-%d-%s-%s: %s\n", dirs.props, i+1, sy, iv[0], replaceIdent(iv[1], "self", fmt.Sprintf("pathDollar[%d]", i+1)))
			}
		}
		for _, iv := range dirs.symInvs[r.lhs] {
			fmt.Fprintf(&b, "//@ ensures [%s] out-%s-%s: %s\n", dirs.props, r.lhs, iv[0], replaceIdent(iv[1], "self", "r0"))
		}
		if dirs.nonnil[r.lhs] {
			field := g.typ[r.lhs]
			switch field {
			case "value":
				fmt.Fprintf(&b, "//@ ensures [%s] out-%s: present(r0.%s)\n", dirs.props, r.lhs, field)
			case "method":
				fmt.Fprintf(&b, "//@ ensures [%s] out-%s: r0.%s != nil\n", dirs.props, r.lhs, field)
			case "elems", "indexs":
				fmt.Fprintf(&b, "//@ ensures [%s] out-%s: len(r0.%s) >= 1 && forall(func(i int) bool { return implies(0 <= i && i < len(r0.%s), present(r0.%s[i])) })\n", dirs.props, r.lhs, field, field, field)
			}
		}
		shape := r.lhs + ": " + strings.Join(r.rhs, " ")
		if len(r.rhs) == 0 {
			shape = r.lhs + ":"
		}
		for _, cl := range dirs.ruleClauses[shape] {
			fmt.Fprintf(&b, "//@ %s\n", cl)
		}
		usedShapes[shape] = true
		fmt.Fprintf(&b, "\nfunc %s(pathlex pathLexer, pathDollar []pathSymType, pathStale pathSymType) pathSymType {\n", name)
		if c.k >= 1 {
			b.WriteString("\tpathVAL := pathDollar[1]\n")
		} else {
			b.WriteString("\tpathVAL := pathStale\n")
		}
		b.WriteString("\t_ = pathlex\n")
		for _, ln := range strings.Split(strings.TrimRight(c.body, "\n"), "\n") {
			if strings.HasPrefix(strings.TrimSpace(ln), "//line ") {
				continue
			}
			b.WriteString(ln)
			b.WriteByte('\n')
		}
		b.WriteString("\treturn pathVAL\n}\n\n")
	}
	for shape := range dirs.ruleClauses {
		if !usedShapes[shape] {
			return "", nil, fmt.Errorf("contract file attaches a clause to the rule %q, which grammar.y does not have (with an action)", shape)
		}
	}
	// rules without an action keep $$ = $1: nothing to verify, but say so
	var passive []string
	have := map[int]bool{}
	for _, c := range cases {
		have[c.n] = true
	}
	for _, r := range g.rules {
		if !have[r.n] {
			passive = append(passive, fmt.Sprintf("%d(%s)", r.n, r.lhs))
		}
	}
	fmt.Fprintf(&b, "// rules without an action (value of the first symbol is passed on): %s\n", strings.Join(passive, " "))
	return filepath.Join(dir, "zz_actions_verif.go"), b.Bytes(), nil
}
