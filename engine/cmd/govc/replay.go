package main

import (
	"fmt"
	"os"
)

// tryReplay attempts to confirm a sat obligation on the real code.
func tryReplay(w *world, ob *Obligation, rp *replayFile) bool {
	return replayObligation(w, ob, rp)
}

func cmdReplay(args []string) int {
	if len(args) < 1 {
		fmt.Fprintln(os.Stderr, "usage: govc replay <file>")
		return 2
	}
	return replayFromFile(args[0])
}

func replayObligation(w *world, ob *Obligation, rp *replayFile) bool {
	rp.Note = "no replay template for this obligation kind yet"
	return false
}

func replayFromFile(path string) int {
	b, err := os.ReadFile(path)
	if err != nil {
		fmt.Fprintln(os.Stderr, err)
		return 2
	}
	fmt.Println(string(b))
	return 0
}
