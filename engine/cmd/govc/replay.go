package main

// Replay of solver counterexamples against the real code.
//
// A sat obligation of kind post / safety in a function whose parameters are
// all scalars (machine integers, floats, bools, enums, or `any` holding one of
// those) is replayed by an in-package test injected with `go test -overlay`
// (nothing is written into /repo): the real function is called on the model's
// inputs, its observed results are pinned in a fresh VC together with the
// inputs, and the failed contract clause is evaluated by the solver on those
// concrete values. Only if the clause is false on the observed behaviour (or
// the call panics, for safety obligations) is the violation confirmed.
// Everything else is reported with no-failing-input-found.

import (
	"encoding/json"
	"fmt"
	"go/types"
	"math"
	"math/big"
	"os"
	"os/exec"
	"path/filepath"
	"strconv"
	"strings"

	"golang.org/x/tools/go/ssa"
)

func tryReplay(w *world, ob *Obligation, rp *replayFile) bool {
	defer func() {
		if r := recover(); r != nil {
			rp.Note = fmt.Sprintf("replay aborted: %v", r)
		}
	}()
	return replayObligation(w, ob, rp)
}

func cmdReplay(args []string) int {
	if len(args) < 1 {
		fmt.Fprintln(os.Stderr, "usage: govc replay <file>")
		return 2
	}
	return replayFromFile(args[0])
}

func replayFromFile(path string) int {
	b, err := os.ReadFile(path)
	if err != nil {
		fmt.Fprintln(os.Stderr, err)
		return 2
	}
	var rp replayFile
	if err := json.Unmarshal(b, &rp); err != nil {
		fmt.Fprintln(os.Stderr, err)
		return 2
	}
	fmt.Printf("obligation: %s\nverdict: %s (%s)\nclause: %s\n", rp.Obligation, rp.Verdict, rp.Solver, rp.Text)
	if rp.ReplayTest == "" {
		fmt.Println("no replay test was generated for this obligation:", rp.Note)
		return 0
	}
	// Re-run against the current tree: the model's inputs are fed to the real
	// function again and the failed clause is evaluated on what it returns now.
	w, err := load()
	if err != nil {
		fmt.Println("cannot load the current tree:", err)
		return 2
	}
	ob := &Obligation{Name: rp.Obligation, Kind: rp.Kind, Func: rp.Func, Text: rp.Text, Verdict: rp.Verdict, Solver: rp.Solver, Model: rp.Model}
	now := replayFile{Property: rp.Property, Obligation: rp.Obligation}
	confirmed := tryReplay(w, ob, &now)
	fmt.Println(now.ReplayOutput)
	fmt.Println(now.Note)
	if confirmed {
		fmt.Println("REPRODUCED: the violation shows on the current tree with the recorded inputs")
		return 1
	}
	fmt.Println("NOT REPRODUCED on the current tree with the recorded inputs")
	return 0
}

// parseModel turns "((a 1) (b (- 2)))" into a map.
func parseModel(s string) map[string]string {
	out := map[string]string{}
	s = strings.TrimSpace(s)
	if !strings.HasPrefix(s, "(") {
		return out
	}
	parts := splitSexp(s[1 : len(s)-1])
	for _, p := range parts {
		p = strings.TrimSpace(p)
		if !strings.HasPrefix(p, "(") {
			continue
		}
		kv := splitSexp(p[1 : len(p)-1])
		if len(kv) == 2 {
			out[kv[0]] = kv[1]
		}
	}
	return out
}

func smtInt(v string) (*big.Int, bool) {
	v = strings.TrimSpace(v)
	switch {
	case strings.HasPrefix(v, "(- "):
		n, ok := new(big.Int).SetString(strings.TrimSuffix(v[3:], ")"), 10)
		if !ok {
			return nil, false
		}
		return n.Neg(n), true
	case strings.HasPrefix(v, "#x"):
		n, ok := new(big.Int).SetString(v[2:], 16)
		return n, ok
	case strings.HasPrefix(v, "#b"):
		n, ok := new(big.Int).SetString(v[2:], 2)
		return n, ok
	case strings.HasPrefix(v, "(_ bv"):
		f := strings.Fields(v[5:])
		n, ok := new(big.Int).SetString(f[0], 10)
		return n, ok
	}
	n, ok := new(big.Int).SetString(v, 10)
	return n, ok
}

func smtFloat(v string) (float64, bool) {
	v = strings.TrimSpace(v)
	switch {
	case strings.HasPrefix(v, "(fp "):
		f := splitSexp(v[4 : len(v)-1])
		if len(f) != 3 {
			return 0, false
		}
		bits := ""
		for _, p := range f {
			switch {
			case strings.HasPrefix(p, "#b"):
				bits += p[2:]
			case strings.HasPrefix(p, "#x"):
				n, _ := new(big.Int).SetString(p[2:], 16)
				bits += fmt.Sprintf("%0*b", 4*(len(p)-2), n)
			default:
				return 0, false
			}
		}
		u, err := strconv.ParseUint(bits, 2, 64)
		if err != nil {
			return 0, false
		}
		return math.Float64frombits(u), true
	case strings.HasPrefix(v, "(_ +zero"):
		return 0, true
	case strings.HasPrefix(v, "(_ -zero"):
		return math.Copysign(0, -1), true
	case strings.HasPrefix(v, "(_ +oo"):
		return math.Inf(1), true
	case strings.HasPrefix(v, "(_ -oo"):
		return math.Inf(-1), true
	case strings.HasPrefix(v, "(_ NaN"):
		return math.NaN(), true
	}
	return 0, false
}

func goFloatLit(f float64) string {
	return fmt.Sprintf("math.Float64frombits(0x%x)", math.Float64bits(f))
}

// goLiteral renders a model value as a Go expression of type t.
func goLiteral(v string, t types.Type, qual types.Qualifier, bv bool) (string, bool) {
	ts := types.TypeString(t, qual)
	if w, signed, ok := intInfo(t); ok {
		n, ok := smtInt(v)
		if !ok {
			return "", false
		}
		if bv && signed {
			half := new(big.Int).Lsh(big.NewInt(1), uint(w-1))
			if n.Cmp(half) >= 0 {
				n.Sub(n, new(big.Int).Lsh(big.NewInt(1), uint(w)))
			}
		}
		return fmt.Sprintf("%s(%s)", ts, n.String()), true
	}
	switch {
	case isBool(t):
		return v, v == "true" || v == "false"
	case isFloat(t):
		f, ok := smtFloat(v)
		if !ok {
			return "", false
		}
		return fmt.Sprintf("%s(%s)", ts, goFloatLit(f)), true
	case isEmptyInterface(t):
		v = strings.TrimSpace(v)
		switch {
		case v == "ANil":
			return "any(nil)", true
		case strings.HasPrefix(v, "(ABool "):
			return "any(" + strings.TrimSuffix(v[7:], ")") + ")", true
		case strings.HasPrefix(v, "(AI64 "):
			n, ok := smtInt(strings.TrimSuffix(v[6:], ")"))
			if !ok {
				return "", false
			}
			if bv && n.Cmp(new(big.Int).Lsh(big.NewInt(1), 63)) >= 0 {
				n.Sub(n, new(big.Int).Lsh(big.NewInt(1), 64))
			}
			return fmt.Sprintf("any(int64(%s))", n), true
		case strings.HasPrefix(v, "(AF64 "):
			f, ok := smtFloat(strings.TrimSuffix(v[6:], ")"))
			if !ok {
				return "", false
			}
			return "any(" + goFloatLit(f) + ")", true
		}
	}
	return "", false
}

type replayPlan struct {
	fn      *ssa.Function
	pkgDir  string
	pkgName string
	args    []string
}

func (w *world) findFunc(name string) (*ssa.Function, *Contract) {
	for _, c := range w.allTargets() {
		if c.Key == name && c.Fn != nil {
			return c.Fn, c
		}
	}
	return nil, nil
}

func replayObligation(w *world, ob *Obligation, rp *replayFile) bool {
	if ob.Kind != "post" && ob.Kind != "safety" {
		rp.Note = "no replay for obligations of kind " + ob.Kind + " (only post and safety obligations of scalar-parameter functions are replayed)"
		return false
	}
	fn, c := w.findFunc(ob.Func)
	if fn == nil || fn.Pkg == nil {
		rp.Note = "function not found for replay"
		return false
	}
	if fn.Signature.Recv() != nil {
		rp.Note = "methods with a heap receiver are not replayed (the model's heap cannot be rebuilt generically)"
		return false
	}
	bv := c != nil && c.BV
	model := parseModel(ob.Model)
	qual := func(p *types.Package) string {
		if p == fn.Pkg.Pkg {
			return ""
		}
		return p.Name()
	}
	var args []string
	imports := map[string]bool{"testing": true, "fmt": true, "math": true, "errors": true}
	for _, p := range fn.Params {
		var val string
		for k, v := range model {
			if strings.HasPrefix(k, "p_"+sanitize(p.Name())+"!") {
				val = v
			}
		}
		if val == "" {
			rp.Note = "model has no value for parameter " + p.Name()
			return false
		}
		lit, ok := goLiteral(val, p.Type(), qual, bv)
		if !ok {
			rp.Note = fmt.Sprintf("parameter %s of type %s has a model value that cannot be rebuilt as a Go literal (%s)", p.Name(), p.Type(), truncate(val, 60))
			return false
		}
		if n, ok := p.Type().(*types.Named); ok && n.Obj().Pkg() != nil && n.Obj().Pkg() != fn.Pkg.Pkg {
			imports[n.Obj().Pkg().Path()] = true
		}
		args = append(args, lit)
	}
	// the test
	var b strings.Builder
	fmt.Fprintf(&b, "package %s\n\nimport (\n", fn.Pkg.Pkg.Name())
	for im := range imports {
		fmt.Fprintf(&b, "\t%q\n", im)
	}
	b.WriteString(")\n\nvar _ = math.Pi\nvar _ = errors.New\n\n")
	b.WriteString("func govcShow(v any) string {\n\tswitch x := v.(type) {\n\tcase nil:\n\t\treturn \"nil\"\n\tcase error:\n\t\treturn fmt.Sprintf(\"error:%t:%t:%t\", errors.Is(x, ErrExecution), errors.Is(x, ErrVerbose), errors.Is(x, ErrInvalid))\n\tcase float64:\n\t\treturn fmt.Sprintf(\"float64:%d\", math.Float64bits(x))\n\tcase bool:\n\t\treturn fmt.Sprintf(\"bool:%t\", x)\n\t}\n\treturn fmt.Sprintf(\"%T:%d\", v, v)\n}\n\n")
	b.WriteString("func TestGovcReplay(t *testing.T) {\n\tdefer func() {\n\t\tif r := recover(); r != nil {\n\t\t\tfmt.Printf(\"GOVC-PANIC %v\\n\", r)\n\t\t}\n\t}()\n")
	n := fn.Signature.Results().Len()
	var rs []string
	for i := 0; i < n; i++ {
		rs = append(rs, fmt.Sprintf("r%d", i))
	}
	call := fmt.Sprintf("%s(%s)", fn.Name(), strings.Join(args, ", "))
	if n > 0 {
		fmt.Fprintf(&b, "\t%s := %s\n", strings.Join(rs, ", "), call)
		for i := range rs {
			fmt.Fprintf(&b, "\tfmt.Printf(\"GOVC-RESULT %d %%s\\n\", govcShow(%s))\n", i, rs[i])
		}
	} else {
		fmt.Fprintf(&b, "\t%s\n", call)
	}
	b.WriteString("\tfmt.Println(\"GOVC-RETURNED\")\n}\n")
	src := b.String()
	if fn.Pkg.Pkg.Name() != "exec" {
		src = strings.ReplaceAll(src, "errors.Is(x, ErrExecution), errors.Is(x, ErrVerbose), errors.Is(x, ErrInvalid)", "false, false, false")
	}
	rp.ReplayTest = src
	rel := strings.TrimPrefix(fn.Pkg.Pkg.Path(), modulePath)
	rp.ReplayPkgDir = "." + rel
	out, err := runOverlayTest(rp.ReplayPkgDir, src)
	rp.ReplayOutput = truncate(out, 3000)
	if err != nil && !strings.Contains(out, "GOVC-") {
		rp.Note = "replay test did not run: " + err.Error()
		return false
	}
	if ob.Kind == "safety" {
		if strings.Contains(out, "GOVC-PANIC") {
			rp.Confirmed = true
			rp.Note = "the real function panics on the model's inputs"
			return true
		}
		rp.Note = "the real function did not panic on the model's inputs"
		return false
	}
	if strings.Contains(out, "GOVC-PANIC") {
		rp.Confirmed = true
		rp.Note = "the real function panics on the model's inputs (no result satisfies the postcondition)"
		return true
	}
	// evaluate the clause on the observed results
	ok := confirmClause(w, ob, fn, c, model, out, rp)
	rp.Confirmed = ok
	return ok
}

func runOverlayTest(pkgDir, src string) (string, error) {
	dir, err := os.MkdirTemp("", "govc-replay-")
	if err != nil {
		return "", err
	}
	defer os.RemoveAll(dir)
	testFile := filepath.Join(dir, "zz_govc_replay_test.go")
	if err := os.WriteFile(testFile, []byte(src), 0o644); err != nil {
		return "", err
	}
	abs, _ := filepath.Abs(filepath.Join(repoDir(), pkgDir))
	ov := map[string]any{"Replace": map[string]string{filepath.Join(abs, "zz_govc_replay_test.go"): testFile}}
	ob, _ := json.Marshal(ov)
	ovFile := filepath.Join(dir, "ov.json")
	_ = os.WriteFile(ovFile, ob, 0o644)
	cmd := exec.Command("go", "test", "-overlay", ovFile, "-vet=off", "-count=1", "-v", "-timeout", "60s", "-run", "^TestGovcReplay$", pkgDir)
	cmd.Dir = repoDir()
	cmd.Env = append(os.Environ(), "GOFLAGS=-mod=mod", "GOPROXY=off", "GOSUMDB=off", "GOTOOLCHAIN=local")
	outb, err := cmd.CombinedOutput()
	return string(outb), err
}

// confirmClause pins inputs to the model and results to the observed values
// and asks the solver whether the failed clause holds.
func confirmClause(w *world, ob *Obligation, fn *ssa.Function, c *Contract, model map[string]string, out string, rp *replayFile) bool {
	// find the clause
	label := ob.Name[strings.LastIndex(ob.Name, "/post:")+len("/post:"):]
	var cl *Clause
	vcx := newVC("replay")
	bv := c != nil && c.BV
	x := &X{prog: w.prog, vc: vcx, enc: newEnc(vcx, bv, modulePath), db: w.db, top: fn, topC: c,
		keys: map[string]keyInfo{}, closures: map[string]*ClosV{}, funcIDs: map[*ssa.Function]Term{},
		module: modulePath, inlined: map[string]bool{}, havoced: map[string]bool{}, sentinel: w.sent,
		callSeq: map[string]int{}, nilChecked: map[string]bool{}}
	defer delete(entryDefaults, x)
	for _, cc := range []*Contract{c, x.schematicFor(fn)} {
		if cc == nil {
			continue
		}
		for _, e := range cc.Ensures {
			if clauseLabel(e) == label {
				cl = e
			}
		}
	}
	if cl == nil {
		rp.Note = "replay ran, but the failed clause is not a contract clause that can be re-evaluated (" + label + ")"
		return false
	}
	if cl.internal() && !strings.HasPrefix(cl.Label, "local-") {
		rp.Note = "the failed clause talks about the function's internal call trace; it cannot be re-evaluated from inputs and outputs alone"
		return false
	}
	w.sent.declare(x)
	st := &State{mem: map[string]Term{}, reach: tTrue}
	x.get(st, x.allocKey())
	x.entry = st.clone()
	vars := map[string]SV{}
	for _, p := range fn.Params {
		v := vcx.fresh("p_"+p.Name(), x.enc.sortOf(p.Type()))
		for k, mv := range model {
			if strings.HasPrefix(k, "p_"+sanitize(p.Name())+"!") {
				vcx.assume(mkEq(v, T(v.Sort, mv)))
			}
		}
		vars[p.Name()] = v
	}
	res := fn.Signature.Results()
	for _, ln := range strings.Split(out, "\n") {
		if !strings.HasPrefix(ln, "GOVC-RESULT ") {
			continue
		}
		f := strings.SplitN(strings.TrimPrefix(ln, "GOVC-RESULT "), " ", 2)
		i, _ := strconv.Atoi(f[0])
		if i >= res.Len() || len(f) < 2 {
			continue
		}
		rt := res.At(i).Type()
		rv := vcx.fresh(fmt.Sprintf("r%d", i), x.enc.sortOf(rt))
		val := strings.TrimSpace(f[1])
		kind, rest, _ := strings.Cut(val, ":")
		switch {
		case isErrorType(rt):
			if val == "nil" {
				vcx.assume(mkEq(rv, intLit(0)))
			} else {
				fl := strings.Split(rest, ":")
				vcx.assume(mkNot(mkEq(rv, intLit(0))))
				for j, nm := range []string{"exec.ErrExecution", "exec.ErrVerbose", "exec.ErrInvalid"} {
					for _, sn := range w.sent.names {
						if strings.HasSuffix(sn, nm) && j < len(fl) {
							t := x.errorsIs(rv, T(SInt, sentName(sn)))
							if fl[j] == "true" {
								vcx.assume(t)
							} else {
								vcx.assume(mkNot(t))
							}
						}
					}
				}
			}
		case isFloat(rt):
			u, _ := strconv.ParseUint(rest, 10, 64)
			vcx.assume(app(SBool, "=", rv, x.enc.floatConst(math.Float64frombits(u), SF64)))
		case isBool(rt):
			vcx.assume(mkEq(rv, mkBool(rest == "true")))
		case isEmptyInterface(rt):
			switch kind {
			case "nil":
				vcx.assume(mkEq(rv, T(SAny, "ANil")))
			case "int64":
				n, _ := new(big.Int).SetString(rest, 10)
				vcx.assume(mkEq(rv, app(SAny, "AI64", x.enc.intConstW(n, 64))))
			case "float64":
				u, _ := strconv.ParseUint(rest, 10, 64)
				vcx.assume(mkEq(rv, app(SAny, "AF64", x.enc.floatConst(math.Float64frombits(u), SF64))))
			case "bool":
				vcx.assume(mkEq(rv, app(SAny, "ABool", mkBool(rest == "true"))))
			default:
				rp.Note = "observed result of a type the replay cannot pin: " + val
				return false
			}
		default:
			if wd, _, ok := intInfo(rt); ok {
				n, ok2 := new(big.Int).SetString(rest, 10)
				if !ok2 {
					rp.Note = "cannot read observed integer " + val
					return false
				}
				vcx.assume(mkEq(rv, x.enc.intConstW(n, wd)))
			} else {
				rp.Note = "observed result of a type the replay cannot pin: " + val
				return false
			}
		}
		vars[fmt.Sprintf("r%d", i)] = rv
		if nme := res.At(i).Name(); nme != "" && nme != "_" {
			vars[nme] = rv
		}
	}
	env := &specEnv{x: x, st: st, old: x.entry, vars: vars, ovars: vars}
	x.pure++
	t, ok := x.evalClause(cl, fn, env, x.fnResolver(fn, nil))
	x.pure--
	if !ok {
		rp.Note = "the clause could not be re-evaluated on the observed values"
		return false
	}
	o := &Obligation{Name: "replay", Kind: "replay", Goal: t, vc: vcx, PrefixLen: len(vcx.cmds), DeclLen: len(vcx.decls)}
	work, _ := os.MkdirTemp("", "govc-rp-")
	defer os.RemoveAll(work)
	o.discharge(runConfig{timeoutS: 20, solvers: []string{"z3-new", "z3"}, workdir: work}, 0)
	switch o.Verdict {
	case "sat":
		rp.Note = "replayed on the real code: with the model's inputs the observed results falsify the clause (solver-evaluated)"
		return true
	case "unsat":
		rp.Note = "replayed on the real code: the observed results satisfy the clause for these inputs (the model lives in an abstraction gap)"
		return false
	}
	rp.Note = "replayed on the real code, but the solver could not evaluate the clause on the observed values (" + o.Verdict + ")"
	return false
}
