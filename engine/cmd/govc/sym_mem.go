package main

import (
	"fmt"
	"go/token"
	"go/types"
	"math/big"
	"os"
	"runtime/debug"
	"sort"
	"strconv"
	"strings"

	"golang.org/x/tools/go/ssa"
)

var bigZero = big.NewInt(0)

// ---------------------------------------------------------------------------
// pointers

// ptrOf converts a symbolic value of pointer type into a *PtrV.
func (x *X) ptrOf(v SV, ptrType types.Type) *PtrV {
	if p, ok := v.(*PtrV); ok {
		return p
	}
	t, ok := v.(Term)
	if !ok {
		panic(fmt.Sprintf("ptrOf: unexpected %T", v))
	}
	if t.Sort != SInt && os.Getenv("GOVC_DEBUG") != "" {
		panic(fmt.Sprintf("ptrOf: term %s of sort %s used as pointer %s\n%s", t.S, t.Sort, ptrType, debug.Stack()))
	}
	pt, ok := ptrType.Underlying().(*types.Pointer)
	if !ok {
		panic("ptrOf: not a pointer type: " + ptrType.String())
	}
	el := pt.Elem()
	switch u := el.Underlying().(type) {
	case *types.Struct:
		if !x.enc.isOpaqueStruct(el) {
			return &PtrV{kind: pkObj, ref: t, typ: el}
		}
	case *types.Array:
		return &PtrV{kind: pkElem, ref: t, idx: Term{}, typ: u.Elem()} // array object: idx empty = whole array
	}
	s := x.enc.sortOf(el)
	return &PtrV{kind: pkBox, key: x.boxKey(s), ref: t, typ: el}
}

// ptrTerm converts a pointer to an SMT ref when it denotes a whole object.
func (x *X) ptrTerm(p *PtrV) (Term, bool) {
	switch p.kind {
	case pkObj, pkBox:
		if len(p.path) == 0 {
			return p.ref, true
		}
	case pkElem:
		if p.idx.S == "" {
			return p.ref, true
		}
	}
	return Term{}, false
}

func (x *X) asTerm(v SV, t types.Type) Term {
	switch v := v.(type) {
	case Term:
		return v
	case *PtrV:
		if r, ok := x.ptrTerm(v); ok {
			return r
		}
		x.enc.unsupported("interior pointer escapes to a term")
		return x.vc.fresh("iptr", SInt)
	case *ClosV:
		return x.closureID(v)
	case *IterV:
		return v.m
	case nil:
		return intLit(0)
	}
	panic(fmt.Sprintf("asTerm: %T", v))
}

func (x *X) closureID(c *ClosV) Term {
	for k, o := range x.closures {
		if o == c {
			return T(SInt, k)
		}
	}
	if len(c.binds) == 0 && c.recv == nil {
		if id, ok := x.funcIDs[c.fn]; ok {
			return id
		}
		n := "fn_" + sanitize(funcName(c.fn))
		x.vc.decl(fmt.Sprintf("(declare-const %s Int)", n))
		x.vc.decl(fmt.Sprintf("(assert (= %s (- %d)))", n, 1000+len(x.funcIDs)))
		id := T(SInt, n)
		x.funcIDs[c.fn] = id
		x.closures[n] = c
		return id
	}
	id := x.vc.fresh("clos_"+funcName(c.fn), SInt)
	x.vc.assume(app(SBool, "<", id, intLit(-100000)))
	x.closures[id.S] = c
	return id
}

func (x *X) nilCheck(st *State, fr *Frame, p *PtrV, pos token.Pos) {
	if p.nonNil {
		return
	}
	switch p.kind {
	case pkObj, pkBox, pkElem:
		k := fmt.Sprintf("%d|%s", len(x.vc.cmds)/1000000, p.ref.S)
		if x.nilChecked[k] {
			return
		}
		x.nilChecked[k] = true
		x.safety(st, fr, "nil-deref", mkNot(mkEq(p.ref, intLit(0))), pos)
	}
}

// load reads the value at pointer p.
func (x *X) load(st *State, p *PtrV) Term {
	var v Term
	t := p.typ
	path := p.path
	switch p.kind {
	case pkLocal, pkGlobal:
		v = x.get(st, p.key)
	case pkObj:
		if len(path) == 0 {
			// whole struct
			u := t.Underlying().(*types.Struct)
			s := x.enc.structSort(t, u)
			if u.NumFields() == 0 {
				return T(s, "mk_"+string(s))
			}
			args := make([]Term, u.NumFields())
			for i := range args {
				args[i] = mkSelect(x.get(st, x.fieldKey(t, i)), p.ref, x.enc.sortOf(u.Field(i).Type()))
			}
			return app(s, "mk_"+string(s), args...)
		}
		u := t.Underlying().(*types.Struct)
		ft := u.Field(path[0]).Type()
		v = mkSelect(x.get(st, x.fieldKey(t, path[0])), p.ref, x.enc.sortOf(ft))
		t = ft
		path = path[1:]
	case pkBox:
		v = mkSelect(x.get(st, p.key), p.ref, x.enc.sortOf(t))
	case pkElem:
		es := x.enc.sortOf(t)
		inner := mkSelect(x.get(st, x.elemsKey(es)), p.ref, arraySort(x.enc.isz(), es))
		if p.idx.S == "" {
			return inner // whole array value
		}
		v = mkSelect(inner, p.idx, es)
	}
	for _, i := range path {
		v = x.enc.structField(t, v, i)
		t = t.Underlying().(*types.Struct).Field(i).Type()
	}
	if p.arrIdx.S != "" {
		arr := t.Underlying().(*types.Array)
		v = mkSelect(v, p.arrIdx, x.enc.sortOf(arr.Elem()))
	}
	return v
}

func (x *X) withPath(t types.Type, old Term, path []int, nv Term) Term {
	if len(path) == 0 {
		return nv
	}
	ft := t.Underlying().(*types.Struct).Field(path[0]).Type()
	inner := x.withPath(ft, x.enc.structField(t, old, path[0]), path[1:], nv)
	return x.enc.structWith(t, old, path[0], inner)
}

type storeRec struct {
	key string
	ref Term
	val Term
}

// store writes nv at pointer p.
func (x *X) store(st *State, p *PtrV, nv Term) {
	switch p.kind {
	case pkLocal, pkGlobal:
		old := Term{}
		if len(p.path) > 0 || p.arrIdx.S != "" {
			old = x.get(st, p.key)
		}
		if p.arrIdx.S != "" {
			q := *p
			q.arrIdx = Term{}
			cur := x.load(st, &q)
			nv = mkStore(cur, p.arrIdx, nv)
		}
		st.mem[p.key] = x.vc.define("c_"+p.key, x.withPath(p.typ, old, p.path, nv))
	case pkObj:
		t := p.typ
		if len(p.path) == 0 {
			u := t.Underlying().(*types.Struct)
			for i := 0; i < u.NumFields(); i++ {
				k := x.fieldKey(t, i)
				st.mem[k] = x.vc.define("h", mkStore(x.get(st, k), p.ref, x.enc.structField(t, nv, i)))
			}
			return
		}
		k := x.fieldKey(t, p.path[0])
		ft := t.Underlying().(*types.Struct).Field(p.path[0]).Type()
		arr := x.get(st, k)
		var val Term
		if len(p.path) == 1 {
			val = nv
		} else {
			old := mkSelect(arr, p.ref, x.enc.sortOf(ft))
			val = x.withPath(ft, old, p.path[1:], nv)
		}
		st.mem[k] = x.vc.define("h", mkStore(arr, p.ref, val))
	case pkBox:
		arr := x.get(st, p.key)
		val := nv
		if len(p.path) > 0 {
			val = x.withPath(p.typ, mkSelect(arr, p.ref, x.enc.sortOf(p.typ)), p.path, nv)
		}
		st.mem[p.key] = x.vc.define("h", mkStore(arr, p.ref, val))
	case pkElem:
		es := x.enc.sortOf(p.typ)
		k := x.elemsKey(es)
		arr := x.get(st, k)
		if p.idx.S == "" {
			st.mem[k] = x.vc.define("h", mkStore(arr, p.ref, nv))
			return
		}
		inner := mkSelect(arr, p.ref, arraySort(x.enc.isz(), es))
		val := nv
		if len(p.path) > 0 {
			val = x.withPath(p.typ, mkSelect(inner, p.idx, es), p.path, nv)
		}
		st.mem[k] = x.vc.define("h", mkStore(arr, p.ref, mkStore(inner, p.idx, val)))
	}
}

// ---------------------------------------------------------------------------
// allocation

func (x *X) alloc(st *State, fr *Frame, a *ssa.Alloc) *PtrV {
	el := a.Type().Underlying().(*types.Pointer).Elem()
	if arr, ok := el.Underlying().(*types.Array); ok {
		r := x.newRef(st, "arr")
		es := x.enc.sortOf(arr.Elem())
		k := x.elemsKey(es)
		inner := arraySort(x.enc.isz(), es)
		zero := app(inner, "(as const "+string(inner)+")", x.enc.zero(arr.Elem()))
		st.mem[k] = x.vc.define("h", mkStore(x.get(st, k), r, zero))
		return &PtrV{kind: pkElem, ref: r, typ: arr.Elem(), nonNil: true}
	}
	if !a.Heap {
		key := fmt.Sprintf("L%d:%s:%s", fr.id, a.Name(), a.Comment)
		if _, ok := x.keys[key]; !ok {
			s := x.enc.sortOf(el)
			x.keys[key] = keyInfo{sort: s, init: func() Term { return x.enc.zero(el) }}
		}
		st.mem[key] = x.enc.zero(el)
		return &PtrV{kind: pkLocal, key: key, typ: el, nonNil: true}
	}
	return x.allocHeap(st, el)
}

func (x *X) allocHeap(st *State, el types.Type) *PtrV {
	if u, ok := el.Underlying().(*types.Struct); ok && !x.enc.isOpaqueStruct(el) {
		r := x.newRef(st, "obj")
		for i := 0; i < u.NumFields(); i++ {
			k := x.fieldKey(el, i)
			st.mem[k] = x.vc.define("h", mkStore(x.get(st, k), r, x.enc.zero(u.Field(i).Type())))
		}
		return &PtrV{kind: pkObj, ref: r, typ: el, nonNil: true}
	}
	r := x.newRef(st, "box")
	s := x.enc.sortOf(el)
	k := x.boxKey(s)
	st.mem[k] = x.vc.define("h", mkStore(x.get(st, k), r, x.enc.zero(el)))
	return &PtrV{kind: pkBox, key: k, ref: r, typ: el, nonNil: true}
}

// ---------------------------------------------------------------------------
// slices

func (x *X) sliceParts(s Term) (base, off, ln, cp Term) {
	isz := x.enc.isz()
	return app(SInt, "sbase", s), app(isz, "soff", s), app(isz, "slen", s), app(isz, "scap", s)
}

func (x *X) mkSlice(base, off, ln, cp Term) Term {
	return app(SSlice, "mkSlice", base, off, ln, cp)
}

func (x *X) iadd(a, b Term) Term {
	if x.enc.bv {
		return app(a.Sort, "bvadd", a, b)
	}
	return app(SInt, "+", a, b)
}

func (x *X) isub(a, b Term) Term {
	if x.enc.bv {
		return app(a.Sort, "bvsub", a, b)
	}
	return app(SInt, "-", a, b)
}

func litVal(t Term) (int64, bool) {
	s := t.S
	if strings.HasPrefix(s, "(- ") && strings.HasSuffix(s, ")") {
		n, err := strconv.ParseInt(s[3:len(s)-1], 10, 64)
		return -n, err == nil
	}
	n, err := strconv.ParseInt(s, 10, 64)
	return n, err == nil
}

func (x *X) ile(a, b Term) Term {
	if av, ok := litVal(a); ok {
		if bv, ok := litVal(b); ok {
			return mkBool(av <= bv)
		}
	}
	return x.enc.intCmp(token.LEQ, a, b, types.Typ[types.Int])
}
func (x *X) ilt(a, b Term) Term {
	if av, ok := litVal(a); ok {
		if bv, ok := litVal(b); ok {
			return mkBool(av < bv)
		}
	}
	return x.enc.intCmp(token.LSS, a, b, types.Typ[types.Int])
}
func (x *X) ic(n int64) Term { return x.enc.intConstW(big.NewInt(n), 64) }

// toLen converts an integer term of Go type t to the length sort (int).
func (x *X) toLen(v Term, t types.Type) Term {
	return x.enc.convertInt(v, t, types.Typ[types.Int])
}

func (x *X) elemRead(st *State, s Term, i Term, elemT types.Type) Term {
	es := x.enc.sortOf(elemT)
	base, off, _, _ := x.sliceParts(s)
	inner := mkSelect(x.get(st, x.elemsKey(es)), base, arraySort(x.enc.isz(), es))
	return mkSelect(inner, x.iadd(off, i), es)
}

// appendOne models append(s, v) for a single element.
func (x *X) appendOne(st *State, s Term, v Term, elemT types.Type) Term {
	es := x.enc.sortOf(elemT)
	k := x.elemsKey(es)
	arr := x.get(st, k)
	base, off, ln, cp := x.sliceParts(s)
	innerS := arraySort(x.enc.isz(), es)
	one := x.ic(1)
	nl := x.iadd(ln, one)
	inplace := x.vc.define("app_inplace", x.ile(nl, cp))
	nb := x.newRef(st, "appbase")
	ncap := x.vc.fresh("app_cap", x.enc.isz())
	x.vc.assume(x.ile(nl, ncap))
	oldInner := mkSelect(arr, base, innerS)
	// copy for the reallocation case
	copyInner := x.vc.fresh("app_copy", innerS)
	zero := x.ic(0)
	x.vc.assume(mkImplies(mkEq(off, zero), mkEq(copyInner, oldInner)))
	if !x.enc.bv {
		x.vc.assume(T(SBool, fmt.Sprintf("(forall ((i Int)) (=> (and (<= 0 i) (< i %s)) (= (select %s i) (select %s (+ %s i)))))", ln.S, copyInner.S, oldInner.S, off.S)))
	}
	res := mkIte(inplace, x.mkSlice(base, off, nl, cp), x.mkSlice(nb, zero, nl, ncap))
	narr := mkIte(inplace,
		mkStore(arr, base, mkStore(oldInner, x.iadd(off, ln), v)),
		mkStore(arr, nb, mkStore(copyInner, ln, v)))
	st.mem[k] = x.vc.define("h_app", narr)
	return x.vc.define("appended", res)
}

// ---------------------------------------------------------------------------
// interfaces

func (x *X) makeInterface(v SV, t types.Type) Term {
	if isErrorType(t) {
		return app(SAny, "AErr", x.asTerm(v, t))
	}
	switch u := t.Underlying().(type) {
	case *types.Basic:
		tv := x.asTerm(v, t)
		switch {
		case u.Info()&types.IsBoolean != 0 && isPlain(t):
			return app(SAny, "ABool", tv)
		case u.Kind() == types.Int64 && isPlain(t):
			return app(SAny, "AI64", tv)
		case u.Kind() == types.Float64 && isPlain(t):
			return app(SAny, "AF64", tv)
		case u.Kind() == types.String && isPlain(t):
			return app(SAny, "AStr", tv)
		case u.Kind() == types.String && t.String() == "encoding/json.Number":
			return app(SAny, "AJNum", tv)
		}
		return app(SAny, "AOther", intLit(int64(x.enc.tid(t))), x.boxInt(tv, t))
	case *types.Slice:
		if isPlain(t) && isEmptyInterface(u.Elem()) {
			return app(SAny, "ASlice", x.asTerm(v, t))
		}
		return app(SAny, "AOther", intLit(int64(x.enc.tid(t))), app(SInt, "sbase", x.asTerm(v, t)))
	case *types.Map:
		if isPlain(t) && isString(u.Key()) && isEmptyInterface(u.Elem()) {
			return app(SAny, "AMap", x.asTerm(v, t))
		}
		return app(SAny, "APtr", intLit(int64(x.enc.tid(t))), x.asTerm(v, t))
	case *types.Pointer:
		return app(SAny, "APtr", intLit(int64(x.enc.tid(t))), x.asTerm(v, t))
	case *types.Signature:
		return app(SAny, "AOther", intLit(int64(x.enc.tid(t))), x.asTerm(v, t))
	case *types.Interface:
		return x.asTerm(v, t)
	}
	tv := x.asTerm(v, t)
	return app(SAny, "AOther", intLit(int64(x.enc.tid(t))), x.boxInt(tv, t))
}

func isPlain(t types.Type) bool {
	_, named := t.(*types.Named)
	return !named
}

func isEmptyInterface(t types.Type) bool {
	i, ok := t.Underlying().(*types.Interface)
	return ok && i.NumMethods() == 0
}

// boxInt injects a value of arbitrary sort into Int (identity on Int).
func (x *X) boxInt(v Term, t types.Type) Term {
	if v.Sort == SInt {
		return v
	}
	fn := "boxint_" + sanitize(string(v.Sort))
	if !x.enc.declared[fn] {
		x.enc.declared[fn] = true
		x.vc.decl(fmt.Sprintf("(declare-fun %s (%s) Int)", fn, v.Sort))
		x.vc.decl(fmt.Sprintf("(declare-fun un%s (Int) %s)", fn, v.Sort))
		x.vc.decl(fmt.Sprintf("(assert (forall ((v %s)) (! (= (un%s (%s v)) v) :pattern ((%s v)))))", v.Sort, fn, fn, fn))
	}
	return app(SInt, fn, v)
}

func (x *X) unboxInt(v Term, t types.Type) Term {
	s := x.enc.sortOf(t)
	if s == SInt {
		return v
	}
	fn := "boxint_" + sanitize(string(s))
	if !x.enc.declared[fn] {
		x.boxInt(x.enc.zero(t), t)
	}
	return app(s, "un"+fn, v)
}

// typeTest gives (is-of-type condition, projected value) for v.(t).
func (x *X) typeTest(v Term, t types.Type) (Term, SV) {
	is := func(c string) Term { return T(SBool, fmt.Sprintf("((_ is %s) %s)", c, v.S)) }
	if isErrorType(t) {
		return is("AErr"), app(SInt, "aerr", v)
	}
	switch u := t.Underlying().(type) {
	case *types.Basic:
		switch {
		case u.Info()&types.IsBoolean != 0 && isPlain(t):
			return is("ABool"), app(SBool, "abool", v)
		case u.Kind() == types.Int64 && isPlain(t):
			return is("AI64"), app(x.enc.intSortW(64), "ai64", v)
		case u.Kind() == types.Float64 && isPlain(t):
			return is("AF64"), app(SF64, "af64", v)
		case u.Kind() == types.String && isPlain(t):
			return is("AStr"), app(SStr, "astr", v)
		case u.Kind() == types.String && t.String() == "encoding/json.Number":
			return is("AJNum"), app(SStr, "ajn", v)
		}
		c := mkAnd(is("AOther"), mkEq(app(SInt, "aoT", v), intLit(int64(x.enc.tid(t)))))
		return c, x.unboxInt(app(SInt, "aoV", v), t)
	case *types.Slice:
		if isPlain(t) && isEmptyInterface(u.Elem()) {
			return is("ASlice"), app(SSlice, "aslice", v)
		}
	case *types.Map:
		if isPlain(t) && isString(u.Key()) && isEmptyInterface(u.Elem()) {
			return is("AMap"), app(SInt, "amap", v)
		}
		return mkAnd(is("APtr"), mkEq(app(SInt, "aptrT", v), intLit(int64(x.enc.tid(t))))), app(SInt, "aptr", v)
	case *types.Pointer:
		return mkAnd(is("APtr"), mkEq(app(SInt, "aptrT", v), intLit(int64(x.enc.tid(t))))), app(SInt, "aptr", v)
	case *types.Interface:
		// dynamic type implements t
		if u.NumMethods() == 0 {
			return mkNot(is("ANil")), v
		}
		var alts []Term
		for _, cand := range x.implementers(u) {
			c, _ := x.typeTest(v, cand)
			alts = append(alts, c)
		}
		return mkOr(alts...), v
	}
	c := mkAnd(is("AOther"), mkEq(app(SInt, "aoT", v), intLit(int64(x.enc.tid(t)))))
	return c, x.unboxInt(app(SInt, "aoV", v), t)
}

// implementers lists the concrete module types whose method set satisfies iface.
func (x *X) implementers(iface *types.Interface) []types.Type {
	var out []types.Type
	for _, pkg := range sortedPkgs(x.prog) {
		if pkg.Pkg == nil || !isModulePkg(pkg.Pkg.Path(), x.module) {
			continue
		}
		for _, m := range sortedMembers(pkg) {
			tn, ok := m.(*ssa.Type)
			if !ok {
				continue
			}
			t := tn.Type()
			if _, isI := t.Underlying().(*types.Interface); isI {
				continue
			}
			// struct types are handled through pointers (constructors of the module
			// return pointers; a struct value that happens to implement the interface
			// through an embedded pointer is never stored in an interface)
			if _, isStruct := t.Underlying().(*types.Struct); isStruct {
				if pt := types.NewPointer(t); types.Implements(pt, iface) {
					out = append(out, pt)
				}
				continue
			}
			if types.Implements(t, iface) {
				out = append(out, t)
			} else if pt := types.NewPointer(t); types.Implements(pt, iface) {
				out = append(out, pt)
			}
		}
	}
	sort.Slice(out, func(i, j int) bool {
		return out[i].String() < out[j].String()
	})
	debugShuffle(len(out), func(i, j int) { out[i], out[j] = out[j], out[i] })
	return out
}

func isModulePkg(path, module string) bool {
	return len(path) >= len(module) && path[:len(module)] == module
}
